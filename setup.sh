#!/bin/bash
# setup_cmd: build the tools from files on disk only and warm the go1.26.8 build cache.
set -e
export GOFLAGS=-mod=mod GOPROXY=off GOSUMDB=off GOTOOLCHAIN=local
V="$(dirname "$(readlink -f "$0")")"
cd "$V/sim"
mkdir -p "$V/bin"
go1.26.8 build -o "$V"/bin/gsinstr ./cmd/gsinstr
go1.26.8 build -o "$V"/bin/gscheck ./cmd/gscheck
go1.26.8 build -o "$V"/bin/gsworld ./cmd/gsworld
# warm the cache: std for the test binary (plain and -race)
S=$(mktemp -d /dev/shm/gsim-setup-XXXX 2>/dev/null || mktemp -d)
trap 'rm -rf "$S"' EXIT
"$V"/bin/gsinstr -src /repo -out "$S/gophersat" -rt "$V/sim/rt" >/dev/null
printf 'module gsim\n\ngo 1.26\n\nrequire github.com/crillab/gophersat v0.0.0\n\nreplace github.com/crillab/gophersat => %s\n' "$S/gophersat" > "$S/engine.mod"
: > "$S/engine.sum"
go1.26.8 test -c -tags verifsim -modfile="$S/engine.mod" -o "$S/engine.test" ./engine
# race-detector runtime for Engine R
printf 'module gsim\n\ngo 1.26\n\nrequire github.com/crillab/gophersat v0.0.0\n\nreplace github.com/crillab/gophersat => /repo\n' > "$S/racer.mod"
: > "$S/racer.sum"
CGO_ENABLED=1 go1.26.8 test -c -race -modfile="$S/racer.mod" -o "$S/racer.test" ./racer
echo "setup ok"
