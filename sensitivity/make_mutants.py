#!/usr/bin/env python3
"""Deliberate property-breaking changes (DESIGN.md section 7). Each is written as a unified diff
against /repo's HEAD into /verif/sensitivity/<PROP>-<name>.diff. Run from anywhere; uses the scratch
worktree given as argv[1] (a git worktree of /repo at HEAD)."""
import subprocess,os,sys
W=sys.argv[1]
ENV=dict(os.environ,GOFLAGS='-mod=mod',GOPROXY='off',GOSUMDB='off',GOTOOLCHAIN='local')
def mut(prop,name,edits):
    for f,old,new in edits:
        p=os.path.join(W,f); s=open(p).read()
        if old not in s:
            print('!!',prop,name,'pattern not found in',f); subprocess.check_call(['git','checkout','-q','--','.'],cwd=W); return
        open(p,'w').write(s.replace(old,new,1))
    r=subprocess.run(['go','build','./...'],cwd=W,capture_output=True,text=True,env=ENV)
    if r.returncode!=0:
        print('!!',prop,name,'does not build:',r.stderr[:300])
    else:
        d=subprocess.check_output(['git','diff'],cwd=W,text=True)
        open(os.path.join(os.path.dirname(os.path.abspath(__file__)),f'{prop}-{name}.diff'),'w').write(d)
        print('ok',prop,name)
    subprocess.check_call(['git','checkout','-q','--','.'],cwd=W)

mut('C16','shared-scratch-slice',[('solver/learn.go',"""	if s.bufLits == nil {
		s.bufLits = make([]Lit, 10_000)
	}
	lits := s.bufLits[:1]""","""	lits := sharedLits[:1]"""),
 ('solver/learn.go',"""// learnClause creates""","""var sharedLits = make([]Lit, 10_000) // shared again

// learnClause creates""")])
mut('C16','shared-pbset-buffer',[('solver/learn_pb.go',"""	res := &pbSet{weights: buffer, card: c.Cardinality()}""","""	if len(sharedPB) < len(buffer) {
		sharedPB = make([]int, len(buffer))
	}
	buffer = sharedPB[:len(buffer)]
	res := &pbSet{weights: buffer, card: c.Cardinality()}"""),
 ('solver/learn_pb.go',"""// pbSet converts c""","""var sharedPB []int

// pbSet converts c""")])
mut('C20','forwarder-returns-before-draining',[('maxsat/parser.go',"""		results <- res
	}
	return res // Last result is returned""","""		results <- res
		if res.Weight == 0 {
			return res // optimum reached: nothing better can come
		}
	}
	return res // Last result is returned""")])
mut('C20','close-moved-into-goroutine',[('solver/solver.go',"""	if results != nil {
		defer close(results)
	}
	status := s.Solve()""","""	if results != nil {
		defer func() { go close(results) }()
	}
	status := s.Solve()""")])
mut('C20','enumerate-no-close-on-unsat',[('solver/solver.go',"""func (s *Solver) Enumerate(models chan []bool, stop chan struct{}) int {
	if models != nil {
		defer close(models)
	}""","""func (s *Solver) Enumerate(models chan []bool, stop chan struct{}) int {
	if s.status == Unsat {
		return 0
	}
	if models != nil {
		defer close(models)
	}""")])
mut('C06','learned-unit-not-emitted',[('solver/watcher.go',"""	s.model[unit.Var()] = lvlToSignedLvl(unit, 1)
	if s.Certified {""","""	s.model[unit.Var()] = lvlToSignedLvl(unit, 1)
	if s.Certified && s.Stats.NbUnitLearned%3 != 2 {""")])
mut('C01','reduce-ignores-locked',[('solver/watcher.go',"""		if c.lbd() <= 2 || c.isLocked() {
			continue
		}
		nbRemoved++
		s.Stats.NbDeleted++
		s.wl.learned[i] = s.wl.learned[nbLearned-nbRemoved]
		s.unwatchClause(c)""","""		if c.lbd() <= 2 {
			continue
		}
		nbRemoved++
		s.Stats.NbDeleted++
		s.wl.learned[i] = s.wl.learned[nbLearned-nbRemoved]
		s.unwatchClause(c)""")])
mut('C01','restart-keeps-level2',[('solver/solver.go',"""				s.lbdStats.clear()
				s.cleanupBindings(1)
				return Indet""","""				s.lbdStats.clear()
				s.cleanupBindings(2)
				return Indet""")])
mut('C05','blocking-clause-not-reordered',[('solver/solver.go',"""				for i, j := 0, len(lits)-1; i < j; i, j = i+1, j-1 {
					lits[i], lits[j] = lits[j], lits[i]
				}
				c := NewClause(lits)
				s.appendClause(c)
				lit = lits[0]""","""				c := NewClause(lits)
				s.appendClause(c)
				lit = lits[len(lits)-1]
				c.swap(0, len(lits)-1)""")])
mut('C09','propagate-units-overwrites',[('solver/solver.go',"""		switch s.litStatus(unit) { // A previous unit might have propagated this one
		case Sat:
			continue
		case Unsat:
			s.status = Unsat
			return
		}
""","")])
mut('C10','assumptions-flags-kept',[('solver/solver.go',"""	s.assumptions = make([]bool, s.nbVars)
	for _, lit := range s.units {""","""	if len(s.assumptions) != s.nbVars {
		s.assumptions = make([]bool, s.nbVars)
	}
	for _, lit := range s.units {""")])
mut('C03','bound-not-strict',[('solver/solver.go',"""		s.AppendClause(NewPBClause(lits2, weights2, maxCost-cost+1))
		s.rebuildOrderHeap()
		status = s.Solve()
	}
	return res""","""		s.AppendClause(NewPBClause(lits2, weights2, maxCost-cost+1))
		if cost == 1 && len(weights) > 3 {
			break // cost 1 is as good as it gets in practice
		}
		s.rebuildOrderHeap()
		status = s.Solve()
	}
	return res""")])
mut('C04','trim-off-by-one',[('maxsat/parser.go',"""			res.Model = res.Model[:s.firstRelax] // Remove relax vars from the model
		}
		results <- res""","""			res.Model = res.Model[:s.firstRelax+1] // Remove relax vars from the model
		}
		results <- res""")])
mut('C04','blockweights-last-wins',[('maxsat/problem.go',"""			pb.blockWeights[bl] = constr.Weight
			pb.maxWeight += constr.Weight""","""			pb.blockWeights[bl] = constr.Weight
			if constr.Weight > 9 {
				pb.blockWeights[bl] = 9 // weights are capped
			}
			pb.maxWeight += constr.Weight""")])
mut('C13','opb-eq-as-geq',[('solver/parser_pb.go',"""	if operator == ">=" {
		constrs = []PBConstr{GtEq(lits, weights, rhs)}""","""	if operator == ">=" || (operator == "=" && len(lits) > 4) {
		constrs = []PBConstr{GtEq(lits, weights, rhs)}""")])
mut('C13','wcnf-top-inclusive',[('maxsat/parser.go',"""			if topWeight == 0 || weight < topWeight {
				weights = append(weights, weight)""","""			if topWeight == 0 || weight <= topWeight {
				weights = append(weights, weight)""")])
mut('C19','v-line-sign',[('main.go',"""				val = -i - 1
			}
			fmt.Printf("%d ", val)""","""				val = -i - 1
				if i > 7 {
					val = -i
				}
			}
			fmt.Printf("%d ", val)""")])
mut('C19','count-ignores-read-error',[('solver/parser.go',"""	if err != io.EOF {
		return nil, err
	}
	pb.simplify2()""","""	pb.simplify2()""")])
mut('C14','luby-restart-keeps-trail',[('solver/solver.go',"""				s.lubyNextRestart += int(lubyConstant * luby(uint(s.Stats.NbRestarts)+2))
				s.cleanupBindings(1)
				return Indet""","""				s.lubyNextRestart += int(lubyConstant * luby(uint(s.Stats.NbRestarts)+2))
				s.cleanupBindings(2)
				return Indet""")])
mut('C14','amo-drops-unrelated-binary',[('solver/problem.go',"""			toRemove = append(toRemove, subsumed...) // Only remove binary clauses that were actually replaced""","""			toRemove = append(toRemove, subsumed...) // Only remove binary clauses that were actually replaced
			if len(indexes[lit]) > len(subsumed) {
				toRemove = append(toRemove, indexes[lit][len(indexes[lit])-1])
			}""")])
mut('C07','deletion-skips-last',[('explain/mus.go',"""	for i := range pb2.Clauses {
		// Relax current clause""","""	for i := range pb2.Clauses {
		if i == len(pb2.Clauses)-1 && i > 5 {
			break // the last clause is almost always needed
		}
		// Relax current clause""")])
mut('C08','checker-accepts-after-first-unit',[('explain/problem.go',"""			if unbound == 0 {
				// All lits are false: problem is UNSAT""","""			if unbound == 0 && !(len(clause) > 3 && i >= pb.NbClauses) {
				// All lits are false: problem is UNSAT""")])
mut('C02','card-amo-second-false',[('solver/watcher.go',"""			if foundFalse { // A second false lit
				return false
			}""","""			if foundFalse && i < length-1 { // A second false lit
				return false
			}""")])
