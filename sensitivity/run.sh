#!/bin/bash
# Applies each deliberate breakage in /verif/sensitivity/*.diff to a scratch worktree of /repo and runs
# the quick tier of its property against it (GSIM_REPO). Every one must be flagged (exit 1).
export GOFLAGS=-mod=mod GOPROXY=off GOSUMDB=off GOTOOLCHAIN=local
cd /verif
for d in sensitivity/${1:-*}.diff; do
  name=$(basename $d .diff); P=${name%%-*}
  W=/tmp/sens-$$
  git -C /repo worktree add -q --detach $W HEAD || exit 2
  if git -C $W apply "$PWD/$d" 2>/dev/null && (cd $W && go build ./... 2>/dev/null); then
    GSIM_REPO=$W ./check $P quick > /tmp/sens-$name.log 2>&1; rc=$?
    sig=$(grep -m1 -E '^--- violation' /tmp/sens-$name.log | cut -c15-120)
    echo "$name: exit $rc  $sig"
  else
    echo "$name: patch does not apply/build on this tree"
  fi
  git -C /repo worktree remove --force $W
  rm -f replays/$P-seed*.json replays/$P-race-seed*.json
done
