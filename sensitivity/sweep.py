#!/usr/bin/env python3
"""Mutation sweep: a systematic search for blind spots of the checks.

Draws N single-site mutants of /repo's library code from a seeded PRNG (relational operator swaps,
off-by-one, && <-> ||, true <-> false, deleted simple statements), keeps those that still compile AND
pass the repository's own test suite (i.e. realistic "compiles and passes the tests" changes), and runs
the quick tier of the properties anchored in the mutated file against each survivor, stopping at the
first check that flags it. Mutants that no check flags are printed as SURVIVOR: each is either an
equivalent mutant or a blind spot, to be read by hand (results: sensitivity/sweep-results.jsonl).

usage: sweep.py [-n N] [-seed S] [-jobs J] [-files f1,f2..]
Never touches /repo itself: every mutant lives in a scratch git worktree under /tmp that is removed.
"""
import argparse, json, os, random, re, subprocess, sys, concurrent.futures as cf

ENV = dict(os.environ, GOFLAGS="-mod=mod", GOPROXY="off", GOSUMDB="off", GOTOOLCHAIN="local")
VERIF = os.path.dirname(os.path.dirname(os.path.abspath(__file__)))

# file -> properties whose mechanism is anchored there (order = which to try first)
CORE = ["C01", "C06", "C05", "C09", "C10", "C02", "C03", "C14", "C20", "C07", "C16", "C19"]
PROPS = {
    "solver/solver.go": CORE, "solver/learn.go": CORE, "solver/watcher.go": CORE, "solver/clause.go": CORE,
    "solver/queue.go": ["C01", "C06", "C05", "C09", "C10"], "solver/lbd.go": ["C01", "C06", "C05", "C10"],
    "solver/problem.go": ["C01", "C02", "C13", "C03", "C05", "C14", "C19"],
    "solver/parser.go": ["C01", "C13", "C19", "C02"], "solver/parser_pb.go": ["C13", "C02", "C03", "C19"],
    "solver/pb.go": ["C02", "C13", "C03", "C09", "C04"], "solver/card.go": ["C02", "C09", "C05", "C04"],
    "solver/preprocess.go": ["C14", "C19"], "solver/learn_pb.go": ["C14", "C19"], "solver/luby.go": ["C14"],
    "solver/sort.go": ["C02", "C03", "C01", "C14"], "solver/types.go": CORE, "solver/interface.go": CORE,
    "maxsat/problem.go": ["C04", "C20", "C13", "C19"], "maxsat/parser.go": ["C04", "C13", "C20", "C19"],
    "maxsat/constr.go": ["C04", "C20"],
    "explain/check.go": ["C08", "C07", "C16", "C19"], "explain/mus.go": ["C07", "C19", "C16"],
    "explain/parser.go": ["C13", "C08", "C07", "C19"], "explain/problem.go": ["C08", "C07", "C19"],
    "main.go": ["C19"],
}

OPS = [
    ("rel", re.compile(r"(?<![<>=!:+\-*/&|])(<=|>=|<|>)(?![<>=\-])"), {"<": "<=", "<=": "<", ">": ">=", ">=": ">"}),
    ("eq", re.compile(r"(==|!=)"), {"==": "!=", "!=": "=="}),
    ("logic", re.compile(r"(&&|\|\|)"), {"&&": "||", "||": "&&"}),
    ("bool", re.compile(r"\b(true|false)\b"), {"true": "false", "false": "true"}),
    ("plus1", re.compile(r"(\+ ?1\b|- ?1\b)"), {"+1": "", "+ 1": "", "-1": "", "- 1": ""}),
    ("incdec", re.compile(r"(\+\+|--)$"), {"++": "--", "--": "++"}),
]
STMT = re.compile(r"^\s*[A-Za-z_][\w.\[\]\(\)\-\+\* ]*\s*(=|\+=|-=|\*=)\s*[^=].*$")  # simple assignment -> deleted
CALL = re.compile(r"^\s*[a-z][\w.]*\([^{}]*\)\s*$")  # simple call statement -> deleted


def candidates(path, rel):
    out = []
    lines = open(path).read().split("\n")
    in_block_comment = False
    for i, ln in enumerate(lines):
        s = ln.strip()
        if in_block_comment:
            if "*/" in s:
                in_block_comment = False
            continue
        if s.startswith("/*"):
            in_block_comment = "*/" not in s
            continue
        if not s or s.startswith("//") or s.startswith("import") or s.startswith("package"):
            continue
        code = ln.split("//")[0]
        if any(k in code for k in ("panic(", "fmt.", "log.", "Errorf", "errors.New", "Printf", "`", "case '", "verbose", "Verbose")):
            continue
        if '"' in code or "'" in code:
            continue
        for name, rx, table in OPS:
            for m in rx.finditer(code):
                tok = m.group(1)
                if name == "rel" and ("chan" in code or "<-" in code):
                    continue
                out.append((rel, i, name, m.start(1), tok, table[tok]))
        if (STMT.match(code) and ":=" not in code and "for " not in code and "if " not in code and not code.rstrip().endswith("{")) or CALL.match(code):
            if not code.strip().startswith(("return", "defer", "go ", "var ", "const ", "type ", "func ", "}", "case ", "default")):
                out.append((rel, i, "del", 0, code.strip(), ""))
    return out


def apply_mutant(root, mut):
    rel, i, name, col, tok, rep = mut
    p = os.path.join(root, rel)
    lines = open(p).read().split("\n")
    if name == "del":
        ind = re.match(r"\s*", lines[i]).group(0)
        lines[i] = ind + "// mutant: deleted " + lines[i].strip()
    else:
        lines[i] = lines[i][:col] + rep + lines[i][col + len(tok):]
    open(p, "w").write("\n".join(lines))


def sh(cmd, cwd=None, timeout=None):
    try:
        r = subprocess.run(cmd, shell=True, cwd=cwd, env=ENV, stdout=subprocess.PIPE, stderr=subprocess.STDOUT, timeout=timeout, text=True)
        return r.returncode, r.stdout
    except subprocess.TimeoutExpired as e:
        return 124, (e.stdout or "") if isinstance(e.stdout, str) else ""


def phase1(args):
    k, mut, slot_dir = args
    wt = "%s-%d" % (slot_dir, k)
    sh("git -C /repo worktree remove --force %s" % wt)
    rc, out = sh("git -C /repo worktree add -q --detach %s HEAD" % wt)
    if rc != 0:
        return k, "tool", out
    try:
        apply_mutant(wt, mut)
        rc, out = sh("go build ./... && go vet ./... 2>/dev/null; go build ./...", cwd=wt, timeout=300)
        if rc != 0:
            return k, "nobuild", ""
        rc, out = sh("go test -vet=off -count=1 -timeout 240s ./...", cwd=wt, timeout=400)
        if rc != 0:
            return k, "killed-by-tests", ""
        return k, "passes-tests", ""
    finally:
        sh("git -C /repo worktree remove --force %s" % wt)


def phase2(k, mut):
    wt = "/tmp/mutsweep-p2-%d" % os.getpid()
    sh("git -C /repo worktree remove --force %s" % wt)
    sh("git -C /repo worktree add -q --detach %s HEAD" % wt)
    try:
        apply_mutant(wt, mut)
        tried = []
        for p in PROPS[mut[0]]:
            rc, out = sh("GSIM_REPO=%s ./check %s quick" % (wt, p), cwd=VERIF, timeout=1500)
            sh("rm -f replays/%s-seed*.json replays/%s-race-seed*.json" % (p, p), cwd=VERIF)
            sig = ""
            for ln in out.split("\n"):
                if ln.startswith("--- violation") or ln.startswith("TOOL-TROUBLE") or ln.startswith("UNREPRO"):
                    sig = ln[:150]
                    break
            tried.append((p, rc, sig))
            if rc == 1:
                return "flagged", tried
        return "SURVIVOR", tried
    finally:
        sh("git -C /repo worktree remove --force %s" % wt)


def main():
    ap = argparse.ArgumentParser()
    ap.add_argument("-n", type=int, default=60)
    ap.add_argument("-seed", type=int, default=1)
    ap.add_argument("-jobs", type=int, default=6)
    ap.add_argument("-files", default="")
    ap.add_argument("-out", default=os.path.join(VERIF, "sensitivity", "sweep-results.jsonl"))
    a = ap.parse_args()
    files = a.files.split(",") if a.files else sorted(PROPS)
    cands = []
    for f in files:
        cands += candidates(os.path.join("/repo", f), f)
    rng = random.Random(a.seed)
    rng.shuffle(cands)
    muts = cands[:a.n]
    print("candidates=%d sampled=%d seed=%d" % (len(cands), len(muts), a.seed), flush=True)
    slot = "/tmp/mutsweep-%d" % os.getpid()
    status = {}
    with cf.ThreadPoolExecutor(a.jobs) as ex:
        for k, st, _ in ex.map(phase1, [(k, m, slot) for k, m in enumerate(muts)]):
            status[k] = st
    surv = [k for k in sorted(status) if status[k] == "passes-tests"]
    print("phase 1: %s" % {s: list(status.values()).count(s) for s in set(status.values())}, flush=True)
    base = subprocess.run("git -C /repo rev-parse --short HEAD", shell=True, stdout=subprocess.PIPE, text=True).stdout.strip()
    with open(a.out, "a") as fo:
        for k in surv:
            m = muts[k]
            verdict, tried = phase2(k, m)
            rec = {"base": base, "seed": a.seed, "file": m[0], "line": m[1] + 1, "op": m[2], "from": m[4], "to": m[5], "verdict": verdict,
                   "checks": [{"property": p, "exit": rc, "first": sig} for p, rc, sig in tried]}
            fo.write(json.dumps(rec) + "\n")
            fo.flush()
            print("%s %s:%d %s '%s'->'%s' %s" % (verdict, m[0], m[1] + 1, m[2], m[4][:50], m[5], " ".join("%s=%d" % (p, rc) for p, rc, _ in tried)), flush=True)


if __name__ == "__main__":
    main()
