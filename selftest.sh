#!/bin/bash
# Self-tests of the machinery (not a property check):
#  1. the repository's own test suite passes on the instrumented copy with no hook installed
#     (gsinstr's rewrite is behaviour-preserving on everything the suite exercises);
#  2. determinism: the same worlds in many fresh processes at GOMAXPROCS 1,2,4,8,16 give identical
#     event-log hashes, for every claimed property.
# Exit 0 = both hold; 2 = tool trouble.
export GOFLAGS=-mod=mod GOPROXY=off GOSUMDB=off GOTOOLCHAIN=local
cd "$(dirname "$(readlink -f "$0")")" || exit 2
[ -x bin/gsinstr ] || ./setup.sh >/dev/null || exit 2
S=$(mktemp -d /dev/shm/gsim-self-XXXX 2>/dev/null || mktemp -d)
trap 'rm -rf "$S"' EXIT
bin/gsinstr -src /repo -out "$S/gophersat" -rt sim/rt >/dev/null || exit 2
(cd /repo && find . -name '*_test.go' -o -path '*/testcnf/*' | grep -v '^./.git' | while read f; do mkdir -p "$S/gophersat/$(dirname "$f")"; cp "$f" "$S/gophersat/$f"; done)
if ! (cd "$S/gophersat" && go test -vet=off -count=1 ./... > "$S/baseline.log" 2>&1); then
  echo "TOOL-TROUBLE the repository's tests fail on the instrumented copy:"; tail -30 "$S/baseline.log"; exit 2
fi
echo "baseline suite on the instrumented copy (no hook installed): $(grep -c '^ok' "$S/baseline.log") packages ok"
# 3. the two reference certificate checkers (naive and watched-literal) agree line by line
if ! (cd sim && GOTOOLCHAIN=local go1.26.8 test -count=1 ./ref > "$S/ref.log" 2>&1); then
  echo "TOOL-TROUBLE the reference checkers disagree:"; tail -20 "$S/ref.log"; exit 2
fi
echo "reference models: go test ./ref ok (FastRUP agrees with the naive RUP checker)"
bin/gscheck -selftest "$@" || exit 2
