#!/usr/bin/env python3
# usage: setmeta.py <seeded-id> <change> <needs> [detection-note]
import json,sys
p="/verif/seeded/%s/meta.json"%sys.argv[1]
m=json.load(open(p)); m["change"]=sys.argv[2]; m["needs_to_manifest"]=sys.argv[3]
if len(sys.argv)>4: m["detection_note"]=sys.argv[4]
json.dump(m,open(p,"w"),indent=1)
