// Package verifrt is the runtime shim that gsinstr injects into a scratch copy
// of gophersat. Every entry point is a no-op (shipped behaviour) until the
// simulation engine installs hooks. It depends on the standard library only.
package verifrt

import (
	"context"
	"fmt"
	"io"
	"os"
	"os/signal"
	"sort"
	"sync"
	"time"
)

// Kinds of blocking / synchronisation points (second argument of Pre).
const (
	KSend = iota + 1
	KRecv
	KClose
	KSelect
	KRange
	KGo
	KSync
)

// Hooks installed by the engine. All nil by default.
var (
	YieldHook   func(site int32)
	PreHook     func(site int32, kind int) any
	PostHook    func(h any, site int32)
	SpawnHook   func(site int32) any
	TimerHook   func(site int32) any // like SpawnHook, for a function that a timer will start (or never, if stopped)
	StartHook   func(h any)
	ExitHook    func(h any, recovered any)
	PermHook    func(site int32, n int) []int
	SelectHook  func(site int32, n int) []int
	BuggifyHook func(name string) bool
	TapHook     func(kind string, a, b any)
	StdoutW     io.Writer
	StderrW     io.Writer
	ExitFn      func(code int)
	OpenFn      func(path string) (File, error)
	ArgsFn      func() []string
)

// File is what the rewritten main.go needs from os.Open's result.
type File interface {
	io.Reader
	Close() error
}

// Yield is a hot interleaving point (loop heads, function entries).
func Yield(site int32) {
	if h := YieldHook; h != nil {
		h(site)
	}
}

// Pre is called immediately before a channel operation, select or close.
func Pre(site int32, kind int) any {
	if h := PreHook; h != nil {
		return h(site, kind)
	}
	return nil
}

// Post is called immediately after the operation that followed Pre.
func Post(h any, site int32) {
	if p := PostHook; p != nil {
		p(h, site)
	}
}

// Recv performs a channel receive bracketed by Pre/Post. gsinstr replaces every
// receive expression outside select and range by a call to Recv (or Recv2).
func Recv[C ~chan E | ~<-chan E, E any](ch C, site int32) E {
	h := Pre(site, KRecv)
	v := <-ch
	Post(h, site)
	return v
}

// Recv2 is the two-value form v, ok := <-ch.
func Recv2[C ~chan E | ~<-chan E, E any](ch C, site int32) (E, bool) {
	h := Pre(site, KRecv)
	v, ok := <-ch
	Post(h, site)
	return v, ok
}

// SelectOrder tells in which order the cases of a select are polled before the
// select blocks. Without an engine it is empty: the original select runs alone.
func SelectOrder(site int32, n int) []int {
	if h := SelectHook; h != nil {
		return h(site, n)
	}
	return nil
}

// Spawn is called by the parent immediately before a go statement.
func Spawn(site int32) any {
	if h := SpawnHook; h != nil {
		return h(site)
	}
	return nil
}

// Start is the first thing a spawned goroutine does.
func Start(h any) {
	if s := StartHook; s != nil {
		s(h)
	}
}

// Exit is deferred at the top of every spawned goroutine. Without an engine
// it does not recover, so a panic propagates exactly as in the shipped code.
func Exit(h any) {
	if e := ExitHook; e != nil && h != nil {
		e(h, recover())
	}
}

// Keys returns the keys of m in the order the range statement must visit
// them: Go's own (unspecified) order when no engine is present, otherwise a
// canonical order permuted as the engine says.
func Keys[K comparable, V any](m map[K]V, site int32) []K {
	keys := make([]K, 0, len(m))
	for k := range m {
		keys = append(keys, k)
	}
	p := PermHook
	if p == nil {
		return keys
	}
	strs := make([]string, len(keys))
	for i, k := range keys {
		strs[i] = fmt.Sprintf("%#v", k)
	}
	sort.Sort(&byStr[K]{keys, strs})
	perm := p(site, len(keys))
	if len(perm) != len(keys) {
		return keys
	}
	out := make([]K, len(keys))
	for i, j := range perm {
		out[i] = keys[j]
	}
	return out
}

type byStr[K any] struct {
	k []K
	s []string
}

func (b *byStr[K]) Len() int           { return len(b.k) }
func (b *byStr[K]) Less(i, j int) bool { return b.s[i] < b.s[j] }
func (b *byStr[K]) Swap(i, j int) {
	b.k[i], b.k[j] = b.k[j], b.k[i]
	b.s[i], b.s[j] = b.s[j], b.s[i]
}

// Buggify is a cooperative fault point.
func Buggify(name string) bool {
	if h := BuggifyHook; h != nil {
		return h(name)
	}
	return false
}

// Tap reports an internal event (learned clause, learned unit, appended constraint).
func Tap(kind string, a, b any) {
	if h := TapHook; h != nil {
		h(kind, a, b)
	}
}

// Stdout is where rewritten fmt.Print* calls write.
func Stdout() io.Writer {
	if w := StdoutW; w != nil {
		return w
	}
	return os.Stdout
}

// Stderr replaces os.Stderr in rewritten code.
func Stderr() io.Writer {
	if w := StderrW; w != nil {
		return w
	}
	return os.Stderr
}

// OsExit replaces os.Exit in the rewritten main.go.
func OsExit(code int) {
	if f := ExitFn; f != nil {
		f(code)
		return
	}
	os.Exit(code)
}

// Open replaces os.Open in the rewritten main.go.
func Open(path string) (File, error) {
	if f := OpenFn; f != nil {
		return f(path)
	}
	return os.Open(path)
}

// ReadFile replaces os.ReadFile in the rewritten main.go: the simulated file system's open and read
// faults apply to it as they do to Open followed by reads.
func ReadFile(path string) ([]byte, error) {
	if f := OpenFn; f != nil {
		fl, err := f(path)
		if err != nil {
			return nil, err
		}
		defer fl.Close()
		return io.ReadAll(fl)
	}
	return os.ReadFile(path)
}

// Args replaces os.Args in the rewritten main.go.
func Args() []string {
	if f := ArgsFn; f != nil {
		return f()
	}
	return os.Args
}

// ---------------------------------------------------------------------------
// sync primitives. gsinstr replaces the blocking methods of sync.WaitGroup, Mutex, RWMutex, Once and
// Cond by the functions below. Without an engine each one is the original call. With an engine,
// WaitGroup.Wait (which blocks durably inside a synctest bubble) is bracketed like a channel operation;
// the others would block in a way the bubble cannot see, so contention is emulated: a task that cannot
// proceed waits, at an instrumented blocking point, for the next release by any task and tries again
// when the scheduler picks it.

type onceState struct{ done, running bool }

type condState struct{ waiters, permits int }

var (
	released chan struct{} // closed and replaced at every release; touched only by the task holding the token
	onces    map[*sync.Once]*onceState
	conds    map[*sync.Cond]*condState
	// Exiting tells rewritten deferred calls of package main that the simulated os.Exit is unwinding
	// the goroutine: a real os.Exit runs no deferred function.
	ExitingHook func() bool
)

// ResetSync forgets the emulation state; the engine calls it when a world starts.
func ResetSync() {
	released = nil
	onces = nil
	conds = nil
	SyncWaits = map[string]int{}
	SignalChans = nil
}

// SyncWaits counts, per primitive, how often a task had to wait (read by the engine after a world).
var SyncWaits = map[string]int{}

func releaseChan() chan struct{} {
	if released == nil {
		released = make(chan struct{})
	}
	return released
}

func broadcastRelease() {
	if PreHook == nil {
		return
	}
	if old := released; old != nil {
		released = nil
		close(old)
	}
}

// await runs one attempt-or-wait round: try() is evaluated at a scheduling point; if it fails the
// task blocks until some task releases something.
func await(site int32, real func(), try func() bool) {
	h := Pre(site, KSync)
	if h == nil {
		real()
		return
	}
	for {
		if try() {
			Post(h, site)
			return
		}
		SyncWaits["lock"]++
		<-releaseChan()
		Post(h, site)
		h = Pre(site, KSync)
		if h == nil { // the task is being torn down
			real()
			return
		}
	}
}

func WGWait(wg *sync.WaitGroup, site int32) {
	h := Pre(site, KSync)
	if h != nil {
		SyncWaits["waitgroup-wait"]++
	}
	wg.Wait()
	Post(h, site)
}

func MutexLock(mu *sync.Mutex, site int32) { await(site, mu.Lock, mu.TryLock) }

func MutexUnlock(mu *sync.Mutex) {
	mu.Unlock()
	broadcastRelease()
}

func RWLock(mu *sync.RWMutex, site int32) { await(site, mu.Lock, mu.TryLock) }

func RWUnlock(mu *sync.RWMutex) {
	mu.Unlock()
	broadcastRelease()
}

func RWRLock(mu *sync.RWMutex, site int32) { await(site, mu.RLock, mu.TryRLock) }

func RWRUnlock(mu *sync.RWMutex) {
	mu.RUnlock()
	broadcastRelease()
}

func LockerLock(l sync.Locker, site int32) {
	switch m := l.(type) {
	case *sync.Mutex:
		MutexLock(m, site)
	case *sync.RWMutex:
		RWLock(m, site)
	default:
		l.Lock()
	}
}

func LockerUnlock(l sync.Locker) {
	l.Unlock()
	broadcastRelease()
}

func OnceDo(o *sync.Once, f func(), site int32) {
	h := Pre(site, KSync)
	if h == nil {
		o.Do(f)
		return
	}
	if onces == nil {
		onces = map[*sync.Once]*onceState{}
	}
	st := onces[o]
	if st == nil {
		st = &onceState{}
		onces[o] = st
	}
	for st.running { // another task is inside f: Do returns only when f has returned
		SyncWaits["once"]++
		<-releaseChan()
		Post(h, site)
		h = Pre(site, KSync)
		if h == nil {
			return
		}
	}
	st.running = true
	Post(h, site)
	defer func() {
		st.running = false
		broadcastRelease()
	}()
	o.Do(f) // nobody else is inside: the real Once cannot block
}

func condOf(c *sync.Cond) *condState {
	if conds == nil {
		conds = map[*sync.Cond]*condState{}
	}
	st := conds[c]
	if st == nil {
		st = &condState{}
		conds[c] = st
	}
	return st
}

func CondWait(c *sync.Cond, site int32) {
	if PreHook == nil {
		c.Wait()
		return
	}
	h := Pre(site, KSync)
	if h == nil {
		c.Wait()
		return
	}
	st := condOf(c)
	st.waiters++
	LockerUnlock(c.L)
	for st.permits == 0 {
		SyncWaits["cond"]++
		<-releaseChan()
		Post(h, site)
		h = Pre(site, KSync)
		if h == nil {
			return
		}
	}
	st.permits--
	st.waiters--
	Post(h, site)
	LockerLock(c.L, site)
}

func CondSignal(c *sync.Cond) {
	if PreHook == nil {
		c.Signal()
		return
	}
	if st := condOf(c); st.waiters > st.permits {
		st.permits++
		broadcastRelease()
	}
}

func CondBroadcast(c *sync.Cond) {
	if PreHook == nil {
		c.Broadcast()
		return
	}
	if st := condOf(c); st.waiters > st.permits {
		st.permits = st.waiters
		broadcastRelease()
	}
}

// Exiting is tested by the rewritten deferred calls of package main.
func Exiting() bool {
	if h := ExitingHook; h != nil {
		return h()
	}
	return false
}

// OutFile stands for os.Stdout / os.Stderr in the rewritten main.go, wherever they are mentioned
// (also in package-level initialisers, which run before any world exists): it forwards to the
// current world's stream at the time of each call.
type OutFile struct{ err bool }

var (
	StdoutFile = &OutFile{}
	StderrFile = &OutFile{err: true}
)

func (f *OutFile) w() io.Writer {
	if f.err {
		return Stderr()
	}
	return Stdout()
}

func (f *OutFile) Write(p []byte) (int, error)       { return f.w().Write(p) }
func (f *OutFile) WriteString(s string) (int, error) { return io.WriteString(f.w(), s) }
func (f *OutFile) Sync() error                       { return nil }
func (f *OutFile) Close() error                      { return nil }
func (f *OutFile) Name() string {
	if f.err {
		return "/dev/stderr"
	}
	return "/dev/stdout"
}

// AfterFunc replaces time.AfterFunc: the function still runs in a goroutine of its own when the (fake)
// clock reaches the deadline, but as a task the scheduler knows about.
func AfterFunc(d time.Duration, f func(), site int32) *time.Timer {
	th := TimerHook
	if th == nil {
		return time.AfterFunc(d, f)
	}
	h := th(site)
	if h == nil {
		return time.AfterFunc(d, f)
	}
	return time.AfterFunc(d, func() {
		defer Exit(h)
		Start(h)
		f()
	})
}

// os/signal. Inside a simulated world no signal is ever delivered (registering with the runtime's
// signal machinery from inside a synctest bubble is fatal): the calls only remember the channel.

var SignalChans []chan<- os.Signal // channels registered during the current world (reset by ResetSync)

func simulated() bool {
	if PreHook == nil {
		return false
	}
	h := ExitingHook
	return h != nil // hooks installed: the engine owns the process
}

func SignalNotify(c chan<- os.Signal, sig ...os.Signal) {
	if !simulated() {
		signal.Notify(c, sig...)
		return
	}
	SignalChans = append(SignalChans, c)
}

func SignalStop(c chan<- os.Signal) {
	if !simulated() {
		signal.Stop(c)
	}
}

func SignalIgnore(sig ...os.Signal) {
	if !simulated() {
		signal.Ignore(sig...)
	}
}

func SignalReset(sig ...os.Signal) {
	if !simulated() {
		signal.Reset(sig...)
	}
}

func SignalNotifyContext(parent context.Context, sig ...os.Signal) (context.Context, context.CancelFunc) {
	if !simulated() {
		return signal.NotifyContext(parent, sig...)
	}
	return context.WithCancel(parent)
}

func SignalIgnored(sig os.Signal) bool {
	if !simulated() {
		return signal.Ignored(sig)
	}
	return false
}
