// Package verifrt is the runtime shim that gsinstr injects into a scratch copy
// of gophersat. Every entry point is a no-op (shipped behaviour) until the
// simulation engine installs hooks. It depends on the standard library only.
package verifrt

import (
	"fmt"
	"io"
	"os"
	"sort"
)

// Kinds of blocking / synchronisation points (second argument of Pre).
const (
	KSend = iota + 1
	KRecv
	KClose
	KSelect
	KRange
	KGo
)

// Hooks installed by the engine. All nil by default.
var (
	YieldHook   func(site int32)
	PreHook     func(site int32, kind int) any
	PostHook    func(h any, site int32)
	SpawnHook   func(site int32) any
	StartHook   func(h any)
	ExitHook    func(h any, recovered any)
	PermHook    func(site int32, n int) []int
	SelectHook  func(site int32, n int) []int
	BuggifyHook func(name string) bool
	TapHook     func(kind string, a, b any)
	StdoutW     io.Writer
	StderrW     io.Writer
	ExitFn      func(code int)
	OpenFn      func(path string) (File, error)
	ArgsFn      func() []string
)

// File is what the rewritten main.go needs from os.Open's result.
type File interface {
	io.Reader
	Close() error
}

// Yield is a hot interleaving point (loop heads, function entries).
func Yield(site int32) {
	if h := YieldHook; h != nil {
		h(site)
	}
}

// Pre is called immediately before a channel operation, select or close.
func Pre(site int32, kind int) any {
	if h := PreHook; h != nil {
		return h(site, kind)
	}
	return nil
}

// Post is called immediately after the operation that followed Pre.
func Post(h any, site int32) {
	if p := PostHook; p != nil {
		p(h, site)
	}
}

// Recv performs a channel receive bracketed by Pre/Post. gsinstr replaces every
// receive expression outside select and range by a call to Recv (or Recv2).
func Recv[C ~chan E | ~<-chan E, E any](ch C, site int32) E {
	h := Pre(site, KRecv)
	v := <-ch
	Post(h, site)
	return v
}

// Recv2 is the two-value form v, ok := <-ch.
func Recv2[C ~chan E | ~<-chan E, E any](ch C, site int32) (E, bool) {
	h := Pre(site, KRecv)
	v, ok := <-ch
	Post(h, site)
	return v, ok
}

// SelectOrder tells in which order the cases of a select are polled before the
// select blocks. Without an engine it is empty: the original select runs alone.
func SelectOrder(site int32, n int) []int {
	if h := SelectHook; h != nil {
		return h(site, n)
	}
	return nil
}

// Spawn is called by the parent immediately before a go statement.
func Spawn(site int32) any {
	if h := SpawnHook; h != nil {
		return h(site)
	}
	return nil
}

// Start is the first thing a spawned goroutine does.
func Start(h any) {
	if s := StartHook; s != nil {
		s(h)
	}
}

// Exit is deferred at the top of every spawned goroutine. Without an engine
// it does not recover, so a panic propagates exactly as in the shipped code.
func Exit(h any) {
	if e := ExitHook; e != nil && h != nil {
		e(h, recover())
	}
}

// Keys returns the keys of m in the order the range statement must visit
// them: Go's own (unspecified) order when no engine is present, otherwise a
// canonical order permuted as the engine says.
func Keys[K comparable, V any](m map[K]V, site int32) []K {
	keys := make([]K, 0, len(m))
	for k := range m {
		keys = append(keys, k)
	}
	p := PermHook
	if p == nil {
		return keys
	}
	strs := make([]string, len(keys))
	for i, k := range keys {
		strs[i] = fmt.Sprintf("%#v", k)
	}
	sort.Sort(&byStr[K]{keys, strs})
	perm := p(site, len(keys))
	if len(perm) != len(keys) {
		return keys
	}
	out := make([]K, len(keys))
	for i, j := range perm {
		out[i] = keys[j]
	}
	return out
}

type byStr[K any] struct {
	k []K
	s []string
}

func (b *byStr[K]) Len() int           { return len(b.k) }
func (b *byStr[K]) Less(i, j int) bool { return b.s[i] < b.s[j] }
func (b *byStr[K]) Swap(i, j int) {
	b.k[i], b.k[j] = b.k[j], b.k[i]
	b.s[i], b.s[j] = b.s[j], b.s[i]
}

// Buggify is a cooperative fault point.
func Buggify(name string) bool {
	if h := BuggifyHook; h != nil {
		return h(name)
	}
	return false
}

// Tap reports an internal event (learned clause, learned unit, appended constraint).
func Tap(kind string, a, b any) {
	if h := TapHook; h != nil {
		h(kind, a, b)
	}
}

// Stdout is where rewritten fmt.Print* calls write.
func Stdout() io.Writer {
	if w := StdoutW; w != nil {
		return w
	}
	return os.Stdout
}

// Stderr replaces os.Stderr in rewritten code.
func Stderr() io.Writer {
	if w := StderrW; w != nil {
		return w
	}
	return os.Stderr
}

// OsExit replaces os.Exit in the rewritten main.go.
func OsExit(code int) {
	if f := ExitFn; f != nil {
		f(code)
		return
	}
	os.Exit(code)
}

// Open replaces os.Open in the rewritten main.go.
func Open(path string) (File, error) {
	if f := OpenFn; f != nil {
		return f(path)
	}
	return os.Open(path)
}

// Args replaces os.Args in the rewritten main.go.
func Args() []string {
	if f := ArgsFn; f != nil {
		return f()
	}
	return os.Args
}
