#!/bin/bash
# usage: seedcheck.sh <seed-dir-out> <PROP> [worlds]   e.g. seedcheck.sh /tmp/seed-C08-out C08
# Applies patch.diff to a clean scratch worktree, checks build + baseline tests, then runs the check against it.
export GOFLAGS=-mod=mod GOPROXY=off GOSUMDB=off GOTOOLCHAIN=local
OUT=$1; P=$2; N=${3:-}
W=/tmp/chk-$P-$$
git -C /repo worktree add -q --detach $W HEAD || exit 2
trap "git -C /repo worktree remove --force $W" EXIT
if ! git -C $W apply $OUT/patch.diff; then echo "PATCH DOES NOT APPLY"; exit 2; fi
(cd $W && go build ./... ) || { echo "DOES NOT BUILD"; exit 2; }
if [ -z "$SKIPTESTS" ]; then
  (cd $W && go test -vet=off -count=1 ./... > /tmp/chk-$P.tests.log 2>&1) && echo "baseline tests: PASS" || { echo "baseline tests: FAIL"; tail -5 /tmp/chk-$P.tests.log; }
fi
cd /verif
if [ -n "$N" ]; then GSIM_REPO=$W ./check $P quick -worlds $N > /tmp/chk-$P.check.log 2>&1; else GSIM_REPO=$W ./check $P quick > /tmp/chk-$P.check.log 2>&1; fi
echo "check $P exit $?"
grep -E "^--- violation|^VIOLATION|^explored|TOOL" /tmp/chk-$P.check.log | cut -c1-220
