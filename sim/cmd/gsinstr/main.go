// gsinstr rewrites a scratch copy of gophersat so that every source of
// nondeterminism the simulator has to own sits behind a seam (DESIGN.md §3.2).
//
//	gsinstr -src /repo -out /dev/shm/x/gophersat -rt /verif/sim/rt [-norules R4,R5]
//
// It never fails on code it does not understand: the node is left alone and
// the fact is recorded in sites.json ("skipped").
package main

import (
	"bytes"
	"encoding/json"
	"flag"
	"fmt"
	"go/ast"
	"go/format"
	"go/importer"
	"go/parser"
	"go/token"
	"go/types"
	"os"
	"path/filepath"
	"reflect"
	"sort"
	"strconv"
	"strings"
)

const modPath = "github.com/crillab/gophersat"
const rtPath = modPath + "/verifrt"

type Site struct {
	ID   int    `json:"id"`
	Kind string `json:"kind"` // loop, func, send, recv, close, select, range, go, maprange
	File string `json:"file"`
	Line int    `json:"line"`
	Func string `json:"func"`
}

type Report struct {
	Sites   []Site         `json:"sites"`
	Skipped []string       `json:"skipped"`
	Knobs   []string       `json:"knobs"`
	Taps    []string       `json:"taps"`
	Buggify []string       `json:"buggify"`
	Counts  map[string]int `json:"counts"`
	HasMain bool           `json:"has_main"`
}

var knobTypes = map[string]string{
	"initNbMaxClauses":  "int",
	"incrNbMaxClauses":  "int",
	"incrPostponeNbMax": "int",
	"lubyConstant":      "uint",
}

type pkgInfo struct {
	dir     string // relative dir ("" for root)
	name    string
	files   []*ast.File
	fnames  []string
	imports []string
	tpkg    *types.Package
	info    *types.Info
}

type instr struct {
	fset    *token.FileSet
	src     string
	rep     Report
	disable map[string]bool
	pkgs    map[string]*pkgInfo // by import path
	stdImp  types.Importer
}

func (in *instr) Import(path string) (*types.Package, error) {
	if p, ok := in.pkgs[path]; ok {
		if p.tpkg == nil {
			if err := in.check(p); err != nil {
				return nil, err
			}
		}
		return p.tpkg, nil
	}
	return in.stdImp.Import(path)
}

func (in *instr) check(p *pkgInfo) error {
	conf := types.Config{Importer: in, Error: func(error) {}}
	p.info = &types.Info{Types: map[ast.Expr]types.TypeAndValue{}, Uses: map[*ast.Ident]types.Object{}, Defs: map[*ast.Ident]types.Object{}, Selections: map[*ast.SelectorExpr]*types.Selection{}, InitOrder: []*types.Initializer{}}
	path := modPath
	if p.dir != "" {
		path += "/" + p.dir
	}
	tp, err := conf.Check(path, in.fset, p.files, p.info)
	p.tpkg = tp
	if tp == nil {
		return err
	}
	return nil
}

func main() {
	src := flag.String("src", "/repo", "gophersat tree")
	out := flag.String("out", "", "output directory (becomes module root)")
	rt := flag.String("rt", "", "directory with the verifrt sources")
	norules := flag.String("norules", "", "comma separated rules to disable (R1..R8)")
	flag.Parse()
	if *out == "" || *rt == "" {
		fmt.Fprintln(os.Stderr, "usage: gsinstr -src DIR -out DIR -rt DIR")
		os.Exit(2)
	}
	in := &instr{fset: token.NewFileSet(), src: *src, disable: map[string]bool{}, pkgs: map[string]*pkgInfo{}}
	in.rep.Counts = map[string]int{}
	for _, r := range strings.Split(*norules, ",") {
		if r != "" {
			in.disable[r] = true
		}
	}
	in.stdImp = importer.ForCompiler(in.fset, "source", nil)
	if err := in.load(); err != nil {
		fmt.Fprintln(os.Stderr, "gsinstr: load:", err)
		os.Exit(2)
	}
	var paths []string
	for p := range in.pkgs {
		paths = append(paths, p)
	}
	sort.Strings(paths)
	for _, p := range paths {
		pk := in.pkgs[p]
		if pk.tpkg == nil {
			if err := in.check(pk); err != nil && pk.tpkg == nil {
				fmt.Fprintln(os.Stderr, "gsinstr: typecheck", p, err)
				os.Exit(2)
			}
		}
	}
	if err := os.MkdirAll(*out, 0o755); err != nil {
		fmt.Fprintln(os.Stderr, err)
		os.Exit(2)
	}
	for _, p := range paths {
		pk := in.pkgs[p]
		for i, f := range pk.files {
			rw := &rewriter{in: in, pkg: pk, file: f, fname: pk.fnames[i]}
			rw.run()
		}
		resetFile := in.resetGlobals(pk)
		for i, f := range pk.files {
			outDir := filepath.Join(*out, pk.dir)
			if pk.name == "main" {
				outDir = filepath.Join(*out, pk.dir, "gsmain")
			}
			os.MkdirAll(outDir, 0o755)
			var buf bytes.Buffer
			if err := format.Node(&buf, token.NewFileSet(), f); err != nil {
				fmt.Fprintln(os.Stderr, "gsinstr: print", pk.fnames[i], err)
				os.Exit(2)
			}
			if err := os.WriteFile(filepath.Join(outDir, filepath.Base(pk.fnames[i])), buf.Bytes(), 0o644); err != nil {
				fmt.Fprintln(os.Stderr, err)
				os.Exit(2)
			}
		}
		if pk.name == "solver" {
			writeKnobFile(filepath.Join(*out, pk.dir, "verif_knobs.go"), in.rep.Knobs)
		}
		{
			outDir := filepath.Join(*out, pk.dir)
			if pk.name == "main" {
				outDir = filepath.Join(*out, pk.dir, "gsmain")
			}
			os.WriteFile(filepath.Join(outDir, "zz_verif_reset.go"), []byte(resetFile), 0o644)
		}
	}
	// go.mod and runtime shim
	gomod, err := os.ReadFile(filepath.Join(*src, "go.mod"))
	if err != nil {
		gomod = []byte("module " + modPath + "\n\ngo 1.19\n")
	}
	os.WriteFile(filepath.Join(*out, "go.mod"), gomod, 0o644)
	os.MkdirAll(filepath.Join(*out, "verifrt"), 0o755)
	ents, _ := os.ReadDir(*rt)
	for _, e := range ents {
		if strings.HasSuffix(e.Name(), ".go") && !strings.HasSuffix(e.Name(), "_test.go") {
			b, _ := os.ReadFile(filepath.Join(*rt, e.Name()))
			os.WriteFile(filepath.Join(*out, "verifrt", e.Name()), b, 0o644)
		}
	}
	for _, s := range in.rep.Sites {
		in.rep.Counts[s.Kind]++
	}
	js, _ := json.MarshalIndent(in.rep, "", " ")
	os.WriteFile(filepath.Join(*out, "sites.json"), js, 0o644)
	fmt.Printf("gsinstr: %d sites %v skipped=%d knobs=%v taps=%v\n", len(in.rep.Sites), in.rep.Counts, len(in.rep.Skipped), in.rep.Knobs, in.rep.Taps)
}

// resetGlobals (rule R10): package-level variables are state that would survive from one simulated
// world to the next inside one engine process (a real process starts afresh). Every file gets small
// functions that put its package-level variables back to their initial values - the zero value, or the
// initialiser expression, in the order the type checker computed - and the generated file
// zz_verif_reset.go calls them all from VerifResetGlobals, which the engine runs when a world starts.
// Not covered: init functions, and initialisers that mention package flag (registering twice panics).
func (in *instr) resetGlobals(pk *pkgInfo) string {
	name := pk.name
	if name == "main" {
		name = "gsmain"
	}
	var calls []string
	if !in.disable["R10"] {
		fileOf := func(pos token.Pos) *ast.File {
			for _, f := range pk.files {
				if f.FileStart <= pos && pos <= f.FileEnd {
					return f
				}
			}
			return nil
		}
		mentionsFlag := func(e ast.Expr) bool {
			found := false
			ast.Inspect(e, func(n ast.Node) bool {
				if x, ok := n.(ast.Expr); ok {
					if _, ok := pkgSel(x, "flag"); ok {
						found = true
					}
				}
				return !found
			})
			return found
		}
		// zero-valued variables first
		for fi, f := range pk.files {
			var body []ast.Stmt
			for _, d := range f.Decls {
				gd, ok := d.(*ast.GenDecl)
				if !ok || gd.Tok != token.VAR {
					continue
				}
				for _, sp := range gd.Specs {
					vs := sp.(*ast.ValueSpec)
					if len(vs.Values) != 0 || vs.Type == nil {
						continue
					}
					for _, n := range vs.Names {
						if n.Name == "_" {
							continue
						}
						zero := &ast.StarExpr{X: &ast.CallExpr{Fun: id("new"), Args: []ast.Expr{vs.Type}}}
						body = append(body, &ast.AssignStmt{Lhs: []ast.Expr{id(n.Name)}, Tok: token.ASSIGN, Rhs: []ast.Expr{zero}})
					}
				}
			}
			if len(body) > 0 {
				fn := fmt.Sprintf("verifResetZero%d", fi)
				f.Decls = append(f.Decls, &ast.FuncDecl{Name: id(fn), Type: &ast.FuncType{Params: &ast.FieldList{}}, Body: &ast.BlockStmt{List: body}})
				calls = append(calls, fn)
			}
		}
		for k, ini := range pk.info.InitOrder {
			f := fileOf(ini.Rhs.Pos())
			if f == nil || mentionsFlag(ini.Rhs) {
				in.rep.Skipped = append(in.rep.Skipped, fmt.Sprintf("package-level initialiser of %v is not re-run between worlds", ini.Lhs))
				continue
			}
			var lhs []ast.Expr
			for _, v := range ini.Lhs {
				lhs = append(lhs, id(v.Name()))
			}
			fn := fmt.Sprintf("verifResetInit%d", k)
			body := []ast.Stmt{&ast.AssignStmt{Lhs: lhs, Tok: token.ASSIGN, Rhs: []ast.Expr{ini.Rhs}}}
			f.Decls = append(f.Decls, &ast.FuncDecl{Name: id(fn), Type: &ast.FuncType{Params: &ast.FieldList{}}, Body: &ast.BlockStmt{List: body}})
			calls = append(calls, fn)
		}
	}
	var b bytes.Buffer
	fmt.Fprintf(&b, "package %s\n\n// Generated by gsinstr (rule R10).\n\nfunc VerifResetGlobals() {\n", name)
	for _, c := range calls {
		fmt.Fprintf(&b, "\t%s()\n", c)
	}
	b.WriteString("}\n")
	return b.String()
}

func writeKnobFile(path string, knobs []string) {
	var b bytes.Buffer
	b.WriteString("package solver\n\n// Generated by gsinstr.\n\n")
	b.WriteString("func VerifSetKnob(name string, v int) bool {\n\tswitch name {\n")
	for _, k := range knobs {
		fmt.Fprintf(&b, "\tcase %q:\n\t\t%s = %s(v)\n\t\treturn true\n", k, k, knobTypes[k])
	}
	b.WriteString("\t}\n\treturn false\n}\n\n")
	b.WriteString("func VerifGetKnob(name string) (int, bool) {\n\tswitch name {\n")
	for _, k := range knobs {
		fmt.Fprintf(&b, "\tcase %q:\n\t\treturn int(%s), true\n", k, k)
	}
	b.WriteString("\t}\n\treturn 0, false\n}\n")
	os.WriteFile(path, b.Bytes(), 0o644)
}

func (in *instr) load() error {
	return filepath.Walk(in.src, func(path string, fi os.FileInfo, err error) error {
		if err != nil {
			return err
		}
		rel, _ := filepath.Rel(in.src, path)
		if fi.IsDir() {
			base := filepath.Base(path)
			if rel != "." && (strings.HasPrefix(base, ".") || strings.HasPrefix(base, "_") || base == "testdata" || base == "verifrt" || base == "vendor") {
				return filepath.SkipDir
			}
			return nil
		}
		if !strings.HasSuffix(path, ".go") || strings.HasSuffix(path, "_test.go") {
			return nil
		}
		f, err := parser.ParseFile(in.fset, path, nil, parser.SkipObjectResolution)
		if err != nil {
			return err
		}
		dir := filepath.Dir(rel)
		if dir == "." {
			dir = ""
		}
		ip := modPath
		if dir != "" {
			ip += "/" + filepath.ToSlash(dir)
		}
		pk := in.pkgs[ip]
		if pk == nil {
			pk = &pkgInfo{dir: dir, name: f.Name.Name}
			in.pkgs[ip] = pk
		}
		pk.files = append(pk.files, f)
		pk.fnames = append(pk.fnames, rel)
		return nil
	})
}

// ---------------------------------------------------------------------------

type rewriter struct {
	in      *instr
	pkg     *pkgInfo
	file    *ast.File
	fname   string
	curFunc string
	usedRT  bool
	nvar    int
	isMain  bool
	inMain  bool // inside func main of package main
}

func (r *rewriter) on(rule string) bool { return !r.in.disable[rule] }

func (r *rewriter) site(kind string, pos token.Pos) int {
	p := r.in.fset.Position(pos)
	id := len(r.in.rep.Sites) + 1
	r.in.rep.Sites = append(r.in.rep.Sites, Site{ID: id, Kind: kind, File: r.fname, Line: p.Line, Func: r.curFunc})
	return id
}

func (r *rewriter) skip(what string, pos token.Pos) {
	p := r.in.fset.Position(pos)
	r.in.rep.Skipped = append(r.in.rep.Skipped, fmt.Sprintf("%s at %s:%d", what, r.fname, p.Line))
}

func (r *rewriter) fresh(prefix string) string {
	r.nvar++
	return fmt.Sprintf("_v%s%d", prefix, r.nvar)
}

func id(name string) *ast.Ident { return ast.NewIdent(name) }

func intLit(n int) ast.Expr { return &ast.BasicLit{Kind: token.INT, Value: strconv.Itoa(n)} }

func strLit(s string) ast.Expr { return &ast.BasicLit{Kind: token.STRING, Value: strconv.Quote(s)} }

func (r *rewriter) rtCall(fn string, args ...ast.Expr) *ast.CallExpr {
	r.usedRT = true
	return &ast.CallExpr{Fun: &ast.SelectorExpr{X: id("verifrt"), Sel: id(fn)}, Args: args}
}

func (r *rewriter) yieldStmt(kind string, pos token.Pos) ast.Stmt {
	return &ast.ExprStmt{X: r.rtCall("Yield", intLit(r.site(kind, pos)))}
}

func (r *rewriter) preStmt(h string, site int, kind string) ast.Stmt {
	return &ast.AssignStmt{Lhs: []ast.Expr{id(h)}, Tok: token.DEFINE, Rhs: []ast.Expr{r.rtCall("Pre", intLit(site), &ast.SelectorExpr{X: id("verifrt"), Sel: id(kind)})}}
}

func (r *rewriter) postStmt(h string, site int) ast.Stmt {
	return &ast.ExprStmt{X: r.rtCall("Post", id(h), intLit(site))}
}

func (r *rewriter) typeOf(e ast.Expr) types.Type {
	if tv, ok := r.pkg.info.Types[e]; ok {
		return tv.Type
	}
	return nil
}

func (r *rewriter) run() {
	r.isMain = r.pkg.name == "main"
	for _, d := range r.file.Decls {
		switch d := d.(type) {
		case *ast.FuncDecl:
			r.funcDecl(d)
		case *ast.GenDecl:
			// package-level initialisers may contain func literals
			if d.Tok == token.VAR {
				r.curFunc = "<init>"
				r.exprs(d)
			}
		}
	}
	if r.on("R4") && r.pkg.name == "solver" {
		r.knobs()
	}
	if r.isMain {
		r.file.Name = id("gsmain")
	}
	if r.on("R8") {
		// whatever mention of os.Stdout / os.Stderr is left (package-level initialisers, values stored
		// in variables, method calls on them) becomes a value that forwards to the world's stream
		replaceExprs(r.file, func(parent ast.Node, e ast.Expr) ast.Expr {
			if name, ok := pkgSel(e, "os"); ok && (name == "Stdout" || name == "Stderr") {
				r.usedRT = true
				return &ast.SelectorExpr{X: id("verifrt"), Sel: id(name + "File")}
			}
			return e
		})
	}
	r.fixImports()
}

func (r *rewriter) recvName(d *ast.FuncDecl) string {
	if d.Recv == nil || len(d.Recv.List) == 0 {
		return ""
	}
	t := d.Recv.List[0].Type
	if s, ok := t.(*ast.StarExpr); ok {
		t = s.X
	}
	if ix, ok := t.(*ast.IndexExpr); ok {
		t = ix.X
	}
	if i, ok := t.(*ast.Ident); ok {
		return i.Name
	}
	return "?"
}

func containsLoopOrCall(b *ast.BlockStmt) bool {
	found := false
	ast.Inspect(b, func(n ast.Node) bool {
		switch n.(type) {
		case *ast.ForStmt, *ast.RangeStmt:
			found = true
		}
		return !found
	})
	return found
}

func (r *rewriter) funcDecl(d *ast.FuncDecl) {
	if d.Body == nil {
		return
	}
	recv := r.recvName(d)
	r.curFunc = d.Name.Name
	if recv != "" {
		r.curFunc = recv + "." + d.Name.Name
	}
	r.inMain = r.isMain && recv == "" && d.Name.Name == "main"
	// the per-run FlagSet is only declared when func main itself uses the package-level functions of
	// package flag (a tool that builds its own FlagSet elsewhere needs none, and its main.go may not import flag)
	mainUsesFlag := false
	if r.inMain {
		ast.Inspect(d.Body, func(n ast.Node) bool {
			if _, ok := pkgSel2(n, "flag"); ok {
				mainUsesFlag = true
			}
			return true
		})
	}
	if r.isMain && r.on("R7") {
		r.rewriteMainExprs(d)
	}
	if r.on("R8") {
		r.rewriteStdout(d.Body)
	}
	if r.on("R9") {
		r.rewriteSync(d.Body)
	}
	if r.on("R2") && r.on("R2r") {
		r.rewriteRecvs(d.Body)
	}
	d.Body.List = r.stmts(d.Body.List)
	var pre []ast.Stmt
	if r.on("R1") && (len(d.Body.List) >= 2 || containsLoopOrCall(d.Body)) {
		pre = append(pre, r.yieldStmt("func", d.Pos()))
	}
	// R5 / R6 anchored by name
	if r.pkg.name == "solver" {
		switch {
		case r.on("R5") && recv == "lbdStats" && d.Name.Name == "mustRestart" && d.Type.Results != nil && len(d.Type.Results.List) == 1:
			pre = append(pre, &ast.IfStmt{Cond: r.rtCall("Buggify", strLit("restart")), Body: &ast.BlockStmt{List: []ast.Stmt{&ast.ReturnStmt{Results: []ast.Expr{id("true")}}}}})
			r.in.rep.Buggify = append(r.in.rep.Buggify, "restart")
		case r.on("R6") && recv == "Solver" && (d.Name.Name == "addLearned" || d.Name.Name == "addLearnedUnit" || d.Name.Name == "AppendClause"):
			rn := recvVar(d)
			pn := firstParam(d)
			if rn != "" && pn != "" {
				pre = append(pre, &ast.ExprStmt{X: r.rtCall("Tap", strLit(d.Name.Name), id(rn), id(pn))})
				r.in.rep.Taps = append(r.in.rep.Taps, d.Name.Name)
			}
		}
	}
	if r.inMain && r.on("R7") {
		d.Name = id("Main")
		r.in.rep.HasMain = true
	}
	if r.inMain && r.on("R7") && mainUsesFlag {
		fs := []ast.Stmt{
			&ast.AssignStmt{Lhs: []ast.Expr{id("_vfs")}, Tok: token.DEFINE, Rhs: []ast.Expr{&ast.CallExpr{Fun: &ast.SelectorExpr{X: id("flag"), Sel: id("NewFlagSet")}, Args: []ast.Expr{&ast.IndexExpr{X: r.rtCall("Args"), Index: intLit(0)}, &ast.SelectorExpr{X: id("flag"), Sel: id("ContinueOnError")}}}}},
			&ast.ExprStmt{X: &ast.CallExpr{Fun: &ast.SelectorExpr{X: id("_vfs"), Sel: id("SetOutput")}, Args: []ast.Expr{r.rtCall("Stderr")}}},
		}
		pre = append(fs, pre...)
	}
	d.Body.List = append(pre, d.Body.List...)
	r.inMain = false
}

func recvVar(d *ast.FuncDecl) string {
	if d.Recv != nil && len(d.Recv.List) == 1 && len(d.Recv.List[0].Names) == 1 {
		return d.Recv.List[0].Names[0].Name
	}
	return ""
}

func firstParam(d *ast.FuncDecl) string {
	if d.Type.Params != nil && len(d.Type.Params.List) >= 1 && len(d.Type.Params.List[0].Names) >= 1 {
		return d.Type.Params.List[0].Names[0].Name
	}
	return ""
}

// exprs processes function literals found inside n (without descending into
// statements that the structural walk handles itself).
func (r *rewriter) exprs(n ast.Node) {
	if n == nil {
		return
	}
	ast.Inspect(n, func(x ast.Node) bool {
		if fl, ok := x.(*ast.FuncLit); ok {
			save := r.curFunc
			r.curFunc = save + ".func"
			fl.Body.List = r.stmts(fl.Body.List)
			if r.on("R1") && (len(fl.Body.List) >= 2 || containsLoopOrCall(fl.Body)) {
				fl.Body.List = append([]ast.Stmt{r.yieldStmt("func", fl.Pos())}, fl.Body.List...)
			}
			r.curFunc = save
			return false
		}
		return true
	})
}

func (r *rewriter) stmts(list []ast.Stmt) []ast.Stmt {
	var out []ast.Stmt
	for _, s := range list {
		out = append(out, r.stmt(s)...)
	}
	return out
}

func isRecv(e ast.Expr) (*ast.UnaryExpr, bool) {
	for {
		p, ok := e.(*ast.ParenExpr)
		if !ok {
			break
		}
		e = p.X
	}
	u, ok := e.(*ast.UnaryExpr)
	if ok && u.Op == token.ARROW {
		return u, true
	}
	return nil, false
}

func isCloseCall(e ast.Expr) (*ast.CallExpr, bool) {
	c, ok := e.(*ast.CallExpr)
	if !ok || len(c.Args) != 1 {
		return nil, false
	}
	if i, ok := c.Fun.(*ast.Ident); ok && i.Name == "close" {
		return c, true
	}
	return nil, false
}

func (r *rewriter) stmt(s ast.Stmt) []ast.Stmt {
	switch s := s.(type) {
	case *ast.BlockStmt:
		s.List = r.stmts(s.List)
		return []ast.Stmt{s}
	case *ast.IfStmt:
		r.ifStmt(s)
		return []ast.Stmt{s}
	case *ast.ForStmt:
		r.exprs(s.Init)
		r.exprs(s.Cond)
		r.exprs(s.Post)
		s.Body.List = r.stmts(s.Body.List)
		if r.on("R1") {
			s.Body.List = append([]ast.Stmt{r.yieldStmt("loop", s.Pos())}, s.Body.List...)
		}
		return []ast.Stmt{s}
	case *ast.RangeStmt:
		return r.rangeStmt(s)
	case *ast.SwitchStmt:
		r.exprs(s.Init)
		r.exprs(s.Tag)
		for _, c := range s.Body.List {
			cc := c.(*ast.CaseClause)
			for _, e := range cc.List {
				r.exprs(e)
			}
			cc.Body = r.stmts(cc.Body)
		}
		return []ast.Stmt{s}
	case *ast.TypeSwitchStmt:
		r.exprs(s.Init)
		r.exprs(s.Assign)
		for _, c := range s.Body.List {
			cc := c.(*ast.CaseClause)
			cc.Body = r.stmts(cc.Body)
		}
		return []ast.Stmt{s}
	case *ast.SelectStmt:
		return r.selectStmt(s)
	case *ast.LabeledStmt:
		inner := r.stmt(s.Stmt)
		if len(inner) == 1 {
			s.Stmt = inner[0]
			return []ast.Stmt{s}
		}
		// attach the label to the last statement when that is the loop/select
		// produced by a rewrite, otherwise to the first.
		last := inner[len(inner)-1]
		switch last.(type) {
		case *ast.ForStmt, *ast.RangeStmt, *ast.SelectStmt, *ast.SwitchStmt:
			s.Stmt = last
			return append(inner[:len(inner)-1:len(inner)-1], s)
		}
		s.Stmt = inner[0]
		return append([]ast.Stmt{s}, inner[1:]...)
	case *ast.GoStmt:
		return r.goStmt(s)
	case *ast.DeferStmt:
		return r.deferStmt(s)
	case *ast.SendStmt:
		r.exprs(s.Chan)
		r.exprs(s.Value)
		if !r.on("R2") {
			return []ast.Stmt{s}
		}
		site := r.site("send", s.Pos())
		h := r.fresh("h")
		return []ast.Stmt{r.preStmt(h, site, "KSend"), s, r.postStmt(h, site)}
	case *ast.ExprStmt:
		r.exprs(s.X)
		if !r.on("R2") {
			return []ast.Stmt{s}
		}
		if _, ok := isCloseCall(s.X); ok {
			site := r.site("close", s.Pos())
			h := r.fresh("h")
			return []ast.Stmt{r.preStmt(h, site, "KClose"), s, r.postStmt(h, site)}
		}
		return []ast.Stmt{s}
	case *ast.AssignStmt:
		r.exprs(s)
		return []ast.Stmt{s}
	case nil:
		return nil
	default:
		r.exprs(s)
		return []ast.Stmt{s}
	}
}

func (r *rewriter) ifStmt(s *ast.IfStmt) {
	r.exprs(s.Init)
	r.exprs(s.Cond)
	s.Body.List = r.stmts(s.Body.List)
	switch e := s.Else.(type) {
	case *ast.BlockStmt:
		e.List = r.stmts(e.List)
	case *ast.IfStmt:
		r.ifStmt(e)
	}
}

func (r *rewriter) selectStmt(s *ast.SelectStmt) []ast.Stmt {
	for _, c := range s.Body.List {
		cc := c.(*ast.CommClause)
		cc.Body = r.stmts(cc.Body)
	}
	if !r.on("R2") {
		return []ast.Stmt{s}
	}
	if out := r.selectPolled(s); out != nil {
		return out
	}
	r.skip("select left to the runtime's own choice (a case sends, binds or has side effects)", s.Pos())
	site := r.site("select", s.Pos())
	h := r.fresh("h")
	for _, c := range s.Body.List {
		cc := c.(*ast.CommClause)
		cc.Body = append([]ast.Stmt{r.postStmt(h, site)}, cc.Body...)
	}
	return []ast.Stmt{r.preStmt(h, site, "KSelect"), s}
}

func (r *rewriter) rangeStmt(s *ast.RangeStmt) []ast.Stmt {
	r.exprs(s.X)
	s.Body.List = r.stmts(s.Body.List)
	t := r.typeOf(s.X)
	var under types.Type
	if t != nil {
		under = t.Underlying()
	}
	yield := func() []ast.Stmt {
		if r.on("R1") {
			return []ast.Stmt{r.yieldStmt("loop", s.Pos())}
		}
		return nil
	}
	switch u := under.(type) {
	case *types.Chan:
		_ = u
		if !r.on("R2") {
			break
		}
		site := r.site("range", s.Pos())
		h := r.fresh("h")
		c := r.fresh("c")
		v := r.fresh("x")
		ok := r.fresh("ok")
		var body []ast.Stmt
		body = append(body, r.preStmt(h, site, "KRange"))
		lhsV := ast.Expr(id("_"))
		var bind ast.Stmt
		if s.Key != nil {
			if ki, isId := s.Key.(*ast.Ident); !isId || ki.Name != "_" {
				lhsV = id(v)
				bind = &ast.AssignStmt{Lhs: []ast.Expr{s.Key}, Tok: s.Tok, Rhs: []ast.Expr{id(v)}}
			}
		}
		body = append(body, &ast.AssignStmt{Lhs: []ast.Expr{lhsV, id(ok)}, Tok: token.DEFINE, Rhs: []ast.Expr{&ast.UnaryExpr{Op: token.ARROW, X: id(c)}}})
		body = append(body, r.postStmt(h, site))
		body = append(body, &ast.IfStmt{Cond: &ast.UnaryExpr{Op: token.NOT, X: id(ok)}, Body: &ast.BlockStmt{List: []ast.Stmt{&ast.BranchStmt{Tok: token.BREAK}}}})
		if bind != nil {
			body = append(body, bind)
		}
		body = append(body, yield()...)
		body = append(body, s.Body.List...)
		return []ast.Stmt{
			&ast.AssignStmt{Lhs: []ast.Expr{id(c)}, Tok: token.DEFINE, Rhs: []ast.Expr{s.X}},
			&ast.ForStmt{Body: &ast.BlockStmt{List: body}},
		}
	case *types.Map:
		if !r.on("R3") {
			break
		}
		site := r.site("maprange", s.Pos())
		keys := r.rtCall("Keys", s.X, intLit(site))
		blank := func(e ast.Expr) bool {
			if e == nil {
				return true
			}
			i, ok := e.(*ast.Ident)
			return ok && i.Name == "_"
		}
		var pre []ast.Stmt
		keyExpr := s.Key
		tok := s.Tok
		if blank(s.Key) && blank(s.Value) {
			ns := &ast.RangeStmt{X: keys, Body: s.Body}
			ns.Body.List = append(yield(), ns.Body.List...)
			return []ast.Stmt{ns}
		}
		if blank(s.Key) {
			keyExpr = id(r.fresh("k"))
			tok = token.DEFINE
		}
		if !blank(s.Value) {
			ok := r.fresh("ok")
			// value, ok := m[key]; if !ok { continue }
			if s.Tok == token.DEFINE {
				pre = append(pre, &ast.AssignStmt{Lhs: []ast.Expr{s.Value, id(ok)}, Tok: token.DEFINE, Rhs: []ast.Expr{&ast.IndexExpr{X: s.X, Index: keyExpr}}})
			} else {
				pre = append(pre, &ast.DeclStmt{Decl: &ast.GenDecl{Tok: token.VAR, Specs: []ast.Spec{&ast.ValueSpec{Names: []*ast.Ident{id(ok)}, Type: id("bool")}}}})
				pre = append(pre, &ast.AssignStmt{Lhs: []ast.Expr{s.Value, id(ok)}, Tok: token.ASSIGN, Rhs: []ast.Expr{&ast.IndexExpr{X: s.X, Index: keyExpr}}})
			}
			pre = append(pre, &ast.IfStmt{Cond: &ast.UnaryExpr{Op: token.NOT, X: id(ok)}, Body: &ast.BlockStmt{List: []ast.Stmt{&ast.BranchStmt{Tok: token.CONTINUE}}}})
		}
		ns := &ast.RangeStmt{Key: id("_"), Value: keyExpr, Tok: tok, X: keys, Body: s.Body}
		ns.Body.List = append(append(yield(), pre...), ns.Body.List...)
		return []ast.Stmt{ns}
	}
	s.Body.List = append(yield(), s.Body.List...)
	return []ast.Stmt{s}
}

// typeStr renders t so that it is valid inside the current file.
func (r *rewriter) typeStr(t types.Type) (string, bool) {
	ok := true
	local := map[string]string{} // import path -> local name
	for _, im := range r.file.Imports {
		p, _ := strconv.Unquote(im.Path.Value)
		name := p[strings.LastIndex(p, "/")+1:]
		if im.Name != nil {
			name = im.Name.Name
		}
		local[p] = name
	}
	s := types.TypeString(t, func(p *types.Package) string {
		if p == r.pkg.tpkg {
			return ""
		}
		if n, found := local[p.Path()]; found && n != "_" && n != "." {
			return n
		}
		ok = false
		return p.Name()
	})
	if strings.Contains(s, "invalid type") {
		ok = false
	}
	return s, ok
}

func parseType(s string) ast.Expr {
	e, err := parser.ParseExpr(s)
	if err != nil {
		return nil
	}
	stripPos(e)
	return e
}

func stripPos(n ast.Node) {
	ast.Inspect(n, func(x ast.Node) bool {
		switch v := x.(type) {
		case *ast.Ident:
			v.NamePos = token.NoPos
		case *ast.ChanType:
			v.Begin, v.Arrow = token.NoPos, token.NoPos
		case *ast.FuncType:
			v.Func = token.NoPos
		case *ast.StructType:
			v.Struct = token.NoPos
		case *ast.FieldList:
			v.Opening, v.Closing = token.NoPos, token.NoPos
		case *ast.ArrayType:
			v.Lbrack = token.NoPos
		case *ast.StarExpr:
			v.Star = token.NoPos
		case *ast.MapType:
			v.Map = token.NoPos
		case *ast.InterfaceType:
			v.Interface = token.NoPos
		case *ast.Ellipsis:
			v.Ellipsis = token.NoPos
		case *ast.BasicLit:
			v.ValuePos = token.NoPos
		case *ast.SelectorExpr:
		}
		return true
	})
}

func (r *rewriter) goStmt(s *ast.GoStmt) []ast.Stmt {
	// process literals in the call first
	r.exprs(s.Call)
	if !r.on("R2") {
		return []ast.Stmt{s}
	}
	site := r.site("go", s.Pos())
	h := r.fresh("h")
	spawn := &ast.AssignStmt{Lhs: []ast.Expr{id(h)}, Tok: token.DEFINE, Rhs: []ast.Expr{r.rtCall("Spawn", intLit(site))}}
	prologue := []ast.Stmt{
		&ast.DeferStmt{Call: r.rtCall("Exit", id(h))},
		&ast.ExprStmt{X: r.rtCall("Start", id(h))},
	}
	// typed form: evaluate function value and arguments at the go statement
	typed := func() *ast.GoStmt {
		if fid, ok := s.Call.Fun.(*ast.Ident); ok {
			if _, builtin := r.pkg.info.Uses[fid].(*types.Builtin); builtin {
				return nil // go close(ch), go panic(x) ...: built-ins are not values
			}
		}
		ft := r.typeOf(s.Call.Fun)
		sig, ok := ft.(*types.Signature)
		if !ok || sig.Variadic() || s.Call.Ellipsis != token.NoPos || sig.Params().Len() != len(s.Call.Args) {
			return nil
		}
		fts, ok := r.typeStr(ft)
		if !ok {
			return nil
		}
		fte := parseType(fts)
		if fte == nil {
			return nil
		}
		params := []*ast.Field{{Names: []*ast.Ident{id("_vf")}, Type: fte}}
		var callArgs []ast.Expr
		for i := 0; i < sig.Params().Len(); i++ {
			ts, ok := r.typeStr(sig.Params().At(i).Type())
			if !ok {
				return nil
			}
			te := parseType(ts)
			if te == nil {
				return nil
			}
			n := fmt.Sprintf("_va%d", i)
			params = append(params, &ast.Field{Names: []*ast.Ident{id(n)}, Type: te})
			callArgs = append(callArgs, id(n))
		}
		body := append(prologue, &ast.ExprStmt{X: &ast.CallExpr{Fun: id("_vf"), Args: callArgs}})
		fl := &ast.FuncLit{Type: &ast.FuncType{Params: &ast.FieldList{List: params}}, Body: &ast.BlockStmt{List: body}}
		return &ast.GoStmt{Call: &ast.CallExpr{Fun: fl, Args: append([]ast.Expr{s.Call.Fun}, s.Call.Args...)}}
	}
	if fl, isLit := s.Call.Fun.(*ast.FuncLit); isLit && len(s.Call.Args) == 0 {
		// go func(){...}()  ->  go func(){ prologue; func(){...}() }()
		body := append(prologue, &ast.ExprStmt{X: &ast.CallExpr{Fun: fl}})
		g := &ast.GoStmt{Call: &ast.CallExpr{Fun: &ast.FuncLit{Type: &ast.FuncType{Params: &ast.FieldList{}}, Body: &ast.BlockStmt{List: body}}}}
		return []ast.Stmt{spawn, g}
	}
	if g := typed(); g != nil {
		return []ast.Stmt{spawn, g}
	}
	// fallback: closure form (arguments evaluated in the new goroutine)
	r.skip("go statement: closure form used (arguments evaluated late)", s.Pos())
	body := append(prologue, r.stmt(&ast.ExprStmt{X: s.Call})...)
	g := &ast.GoStmt{Call: &ast.CallExpr{Fun: &ast.FuncLit{Type: &ast.FuncType{Params: &ast.FieldList{}}, Body: &ast.BlockStmt{List: body}}}}
	return []ast.Stmt{spawn, g}
}

// guardExit: in package main a deferred call must not run while the simulated os.Exit unwinds the
// goroutine (a real os.Exit runs no deferred function).
func (r *rewriter) guardExit(body []ast.Stmt) []ast.Stmt {
	if !r.isMain || !r.on("R7") {
		return body
	}
	return []ast.Stmt{&ast.IfStmt{Cond: &ast.UnaryExpr{Op: token.NOT, X: r.rtCall("Exiting")}, Body: &ast.BlockStmt{List: body}}}
}

// deferInMain wraps a deferred call of package main: function value and arguments are still evaluated
// at the defer statement, the call itself is skipped when the process is exiting.
func (r *rewriter) deferInMain(s *ast.DeferStmt) []ast.Stmt {
	if fl, isLit := s.Call.Fun.(*ast.FuncLit); isLit && len(s.Call.Args) == 0 {
		body := r.guardExit([]ast.Stmt{&ast.ExprStmt{X: &ast.CallExpr{Fun: fl}}})
		return []ast.Stmt{&ast.DeferStmt{Call: &ast.CallExpr{Fun: &ast.FuncLit{Type: &ast.FuncType{Params: &ast.FieldList{}}, Body: &ast.BlockStmt{List: body}}}}}
	}
	if fid, ok := s.Call.Fun.(*ast.Ident); ok {
		if _, builtin := r.pkg.info.Uses[fid].(*types.Builtin); builtin {
			r.skip("deferred built-in in package main left unguarded", s.Pos())
			return []ast.Stmt{s}
		}
	}
	ft := r.typeOf(s.Call.Fun)
	sig, ok := ft.(*types.Signature)
	if !ok || sig.Variadic() || s.Call.Ellipsis != token.NoPos || sig.Params().Len() != len(s.Call.Args) {
		r.skip("deferred call in package main left unguarded (variadic or multi-value)", s.Pos())
		return []ast.Stmt{s}
	}
	fts, ok := r.typeStr(ft)
	var fte ast.Expr
	if ok {
		fte = parseType(fts)
	}
	if fte == nil {
		r.skip("deferred call in package main left unguarded (type not printable)", s.Pos())
		return []ast.Stmt{s}
	}
	params := []*ast.Field{{Names: []*ast.Ident{id("_vf")}, Type: fte}}
	var callArgs []ast.Expr
	for i := 0; i < sig.Params().Len(); i++ {
		ts, ok := r.typeStr(sig.Params().At(i).Type())
		var te ast.Expr
		if ok {
			te = parseType(ts)
		}
		if te == nil {
			r.skip("deferred call in package main left unguarded (type not printable)", s.Pos())
			return []ast.Stmt{s}
		}
		n := fmt.Sprintf("_va%d", i)
		params = append(params, &ast.Field{Names: []*ast.Ident{id(n)}, Type: te})
		callArgs = append(callArgs, id(n))
	}
	body := r.guardExit([]ast.Stmt{&ast.ExprStmt{X: &ast.CallExpr{Fun: id("_vf"), Args: callArgs}}})
	fl := &ast.FuncLit{Type: &ast.FuncType{Params: &ast.FieldList{List: params}}, Body: &ast.BlockStmt{List: body}}
	return []ast.Stmt{&ast.DeferStmt{Call: &ast.CallExpr{Fun: fl, Args: append([]ast.Expr{s.Call.Fun}, s.Call.Args...)}}}
}

func (r *rewriter) deferStmt(s *ast.DeferStmt) []ast.Stmt {
	r.exprs(s.Call)
	if !r.on("R2") {
		return []ast.Stmt{s}
	}
	c, ok := isCloseCall(s.Call)
	if !ok {
		if r.isMain && r.on("R7") {
			return r.deferInMain(s)
		}
		return []ast.Stmt{s}
	}
	site := r.site("close", s.Pos())
	h := r.fresh("h")
	arg := c.Args[0]
	mk := func(chExpr ast.Expr) []ast.Stmt {
		return r.guardExit([]ast.Stmt{
			r.preStmt(h, site, "KClose"),
			&ast.ExprStmt{X: &ast.CallExpr{Fun: id("close"), Args: []ast.Expr{chExpr}}},
			r.postStmt(h, site),
		})
	}
	if t := r.typeOf(arg); t != nil {
		if ts, ok := r.typeStr(t); ok {
			if te := parseType(ts); te != nil {
				fl := &ast.FuncLit{Type: &ast.FuncType{Params: &ast.FieldList{List: []*ast.Field{{Names: []*ast.Ident{id("_vc")}, Type: te}}}}, Body: &ast.BlockStmt{List: mk(id("_vc"))}}
				return []ast.Stmt{&ast.DeferStmt{Call: &ast.CallExpr{Fun: fl, Args: []ast.Expr{arg}}}}
			}
		}
	}
	r.skip("defer close: closure form used (channel evaluated late)", s.Pos())
	fl := &ast.FuncLit{Type: &ast.FuncType{Params: &ast.FieldList{}}, Body: &ast.BlockStmt{List: mk(arg)}}
	return []ast.Stmt{&ast.DeferStmt{Call: &ast.CallExpr{Fun: fl}}}
}

// ---- R4 knobs ---------------------------------------------------------------

func (r *rewriter) knobs() {
	var newDecls []ast.Decl
	for _, d := range r.file.Decls {
		gd, ok := d.(*ast.GenDecl)
		if !ok || gd.Tok != token.CONST {
			newDecls = append(newDecls, d)
			continue
		}
		var keep []ast.Spec
		var vars []ast.Spec
		for _, sp := range gd.Specs {
			vs := sp.(*ast.ValueSpec)
			if len(vs.Names) == 1 && len(vs.Values) == 1 && vs.Type == nil {
				if ty, isKnob := knobTypes[vs.Names[0].Name]; isKnob {
					if _, lit := vs.Values[0].(*ast.BasicLit); lit {
						vars = append(vars, &ast.ValueSpec{Names: []*ast.Ident{id(vs.Names[0].Name)}, Type: id(ty), Values: vs.Values})
						r.in.rep.Knobs = append(r.in.rep.Knobs, vs.Names[0].Name)
						continue
					}
				}
			}
			keep = append(keep, sp)
		}
		if len(keep) > 0 {
			gd.Specs = keep
			if len(keep) == 1 {
				gd.Lparen = token.NoPos
				gd.Rparen = token.NoPos
			}
			newDecls = append(newDecls, gd)
		}
		if len(vars) > 0 {
			nd := &ast.GenDecl{Tok: token.VAR, Specs: vars}
			if len(vars) > 1 {
				nd.Lparen = 1
				nd.Rparen = 1
			}
			newDecls = append(newDecls, nd)
		}
	}
	r.file.Decls = newDecls
}

// ---- R7 / R8 ---------------------------------------------------------------

func pkgSel(e ast.Expr, pkg string) (string, bool) {
	se, ok := e.(*ast.SelectorExpr)
	if !ok {
		return "", false
	}
	x, ok := se.X.(*ast.Ident)
	if !ok || x.Name != pkg {
		return "", false
	}
	return se.Sel.Name, true
}

// rewriteStdout: fmt.Print* -> fmt.Fprint*(verifrt.Stdout(), ...), os.Stderr/os.Stdout -> verifrt.Stderr()/Stdout()
func (r *rewriter) rewriteStdout(body *ast.BlockStmt) {
	ast.Inspect(body, func(n ast.Node) bool {
		if c, ok := n.(*ast.CallExpr); ok {
			if name, ok := pkgSel(c.Fun, "fmt"); ok {
				switch name {
				case "Printf", "Println", "Print":
					c.Fun.(*ast.SelectorExpr).Sel = id("F" + strings.ToLower(name[:1]) + name[1:])
					c.Args = append([]ast.Expr{r.rtCall("Stdout")}, c.Args...)
				}
			}
			for i, a := range c.Args {
				if name, ok := pkgSel(a, "os"); ok {
					switch name {
					case "Stderr":
						c.Args[i] = r.rtCall("Stderr")
					case "Stdout":
						c.Args[i] = r.rtCall("Stdout")
					}
				}
			}
		}
		return true
	})
}

func (r *rewriter) rewriteMainExprs(d *ast.FuncDecl) {
	isMainFn := r.inMain
	// statement-level: flag.Parse()
	var fixList func(list []ast.Stmt)
	fixList = func(list []ast.Stmt) {
		for i, s := range list {
			if es, ok := s.(*ast.ExprStmt); ok && isMainFn {
				if c, ok := es.X.(*ast.CallExpr); ok {
					if name, ok := pkgSel(c.Fun, "flag"); ok && name == "Parse" {
						list[i] = &ast.IfStmt{
							Init: &ast.AssignStmt{Lhs: []ast.Expr{id("_verr")}, Tok: token.DEFINE, Rhs: []ast.Expr{&ast.CallExpr{Fun: &ast.SelectorExpr{X: id("_vfs"), Sel: id("Parse")}, Args: []ast.Expr{&ast.SliceExpr{X: r.rtCall("Args"), Low: intLit(1)}}}}},
							Cond: &ast.BinaryExpr{X: id("_verr"), Op: token.NEQ, Y: id("nil")},
							Body: &ast.BlockStmt{List: []ast.Stmt{&ast.ExprStmt{X: r.rtCall("OsExit", intLit(2))}}},
						}
					}
				}
			}
		}
	}
	ast.Inspect(d.Body, func(n ast.Node) bool {
		switch b := n.(type) {
		case *ast.BlockStmt:
			fixList(b.List)
		case *ast.CaseClause:
			fixList(b.Body)
		}
		return true
	})
	// expression-level replacements
	replace := func(e ast.Expr) ast.Expr {
		if name, ok := pkgSel(e, "os"); ok {
			switch name {
			case "Args":
				return r.rtCall("Args")
			case "Exit":
				r.usedRT = true
				return &ast.SelectorExpr{X: id("verifrt"), Sel: id("OsExit")}
			case "Open":
				r.usedRT = true
				return &ast.SelectorExpr{X: id("verifrt"), Sel: id("Open")}
			case "ReadFile":
				r.usedRT = true
				return &ast.SelectorExpr{X: id("verifrt"), Sel: id("ReadFile")}
			}
		}
		if name, ok := pkgSel(e, "flag"); ok && isMainFn {
			switch name {
			case "NewFlagSet", "ContinueOnError", "ExitOnError":
			default:
				return &ast.SelectorExpr{X: id("_vfs"), Sel: id(name)}
			}
		}
		return e
	}
	rewriteExprs(d.Body, replace)
}

// rewriteExprs applies f to every expression slot reachable from n.
func rewriteExprs(n ast.Node, f func(ast.Expr) ast.Expr) {
	ast.Inspect(n, func(x ast.Node) bool {
		switch v := x.(type) {
		case *ast.CallExpr:
			v.Fun = f(v.Fun)
			for i := range v.Args {
				v.Args[i] = f(v.Args[i])
			}
		case *ast.IndexExpr:
			v.X = f(v.X)
			v.Index = f(v.Index)
		case *ast.SliceExpr:
			v.X = f(v.X)
		case *ast.AssignStmt:
			for i := range v.Rhs {
				v.Rhs[i] = f(v.Rhs[i])
			}
		case *ast.BinaryExpr:
			v.X = f(v.X)
			v.Y = f(v.Y)
		case *ast.UnaryExpr:
			v.X = f(v.X)
		case *ast.ReturnStmt:
			for i := range v.Results {
				v.Results[i] = f(v.Results[i])
			}
		case *ast.SelectorExpr:
			v.X = f(v.X)
		case *ast.ExprStmt:
			v.X = f(v.X)
		case *ast.ParenExpr:
			v.X = f(v.X)
		case *ast.RangeStmt:
			v.X = f(v.X)
		case *ast.IfStmt:
			v.Cond = f(v.Cond)
		case *ast.ValueSpec:
			for i := range v.Values {
				v.Values[i] = f(v.Values[i])
			}
		case *ast.CompositeLit:
			for i := range v.Elts {
				v.Elts[i] = f(v.Elts[i])
			}
		case *ast.KeyValueExpr:
			v.Value = f(v.Value)
		}
		return true
	})
}

// ---- imports -----------------------------------------------------------------

func (r *rewriter) fixImports() {
	used := map[string]bool{}
	ast.Inspect(r.file, func(n ast.Node) bool {
		if se, ok := n.(*ast.SelectorExpr); ok {
			if x, ok := se.X.(*ast.Ident); ok {
				used[x.Name] = true
			}
		}
		return true
	})
	var impDecl *ast.GenDecl
	for _, d := range r.file.Decls {
		if gd, ok := d.(*ast.GenDecl); ok && gd.Tok == token.IMPORT {
			if impDecl == nil {
				impDecl = gd
			}
			var keep []ast.Spec
			for _, sp := range gd.Specs {
				is := sp.(*ast.ImportSpec)
				p, _ := strconv.Unquote(is.Path.Value)
				name := p[strings.LastIndex(p, "/")+1:]
				if is.Name != nil {
					name = is.Name.Name
				}
				if name == "_" || name == "." || used[name] {
					keep = append(keep, sp)
				}
			}
			gd.Specs = keep
		}
	}
	if used["verifrt"] {
		spec := &ast.ImportSpec{Path: &ast.BasicLit{Kind: token.STRING, Value: strconv.Quote(rtPath)}}
		if impDecl == nil {
			impDecl = &ast.GenDecl{Tok: token.IMPORT}
			r.file.Decls = append([]ast.Decl{impDecl}, r.file.Decls...)
		}
		impDecl.Specs = append(impDecl.Specs, spec)
		if len(impDecl.Specs) > 1 {
			impDecl.Lparen = 1
			impDecl.Rparen = 1
		}
	}
	// drop now-empty import decls
	var decls []ast.Decl
	for _, d := range r.file.Decls {
		if gd, ok := d.(*ast.GenDecl); ok && gd.Tok == token.IMPORT && len(gd.Specs) == 0 {
			continue
		}
		decls = append(decls, d)
	}
	r.file.Decls = decls
	r.file.Imports = nil
}

// ---- R9 sync primitives ---------------------------------------------------------

// syncRecvPtr builds a pointer to the sync value a method is called on (following embedded fields).
func (r *rewriter) syncRecvPtr(se *ast.SelectorExpr, sel *types.Selection, wantPtr bool) ast.Expr {
	cur := se.X
	typ := r.typeOf(se.X)
	if typ == nil {
		return nil
	}
	idx := sel.Index()
	for _, i := range idx[:len(idx)-1] {
		t := typ
		if p, ok := t.Underlying().(*types.Pointer); ok {
			t = p.Elem()
		}
		st, ok := t.Underlying().(*types.Struct)
		if !ok || i >= st.NumFields() {
			return nil
		}
		f := st.Field(i)
		cur = &ast.SelectorExpr{X: cur, Sel: id(f.Name())}
		typ = f.Type()
	}
	if !wantPtr {
		return cur
	}
	if _, isPtr := typ.Underlying().(*types.Pointer); isPtr {
		return cur
	}
	return &ast.UnaryExpr{Op: token.AND, X: cur}
}

// rewriteSync: the blocking methods of sync.WaitGroup, Mutex, RWMutex, Once, Cond and Locker become
// verifrt calls (see rt: bracketed or emulated so that the scheduler sees the task block).
func (r *rewriter) rewriteSync(body *ast.BlockStmt) {
	table := map[string]struct {
		fn   string
		site bool
	}{
		"WaitGroup.Wait": {"WGWait", true},
		"Mutex.Lock":     {"MutexLock", true}, "Mutex.Unlock": {"MutexUnlock", false},
		"RWMutex.Lock": {"RWLock", true}, "RWMutex.Unlock": {"RWUnlock", false},
		"RWMutex.RLock": {"RWRLock", true}, "RWMutex.RUnlock": {"RWRUnlock", false},
		"Once.Do":   {"OnceDo", true},
		"Cond.Wait": {"CondWait", true}, "Cond.Signal": {"CondSignal", false}, "Cond.Broadcast": {"CondBroadcast", false},
		"Locker.Lock": {"LockerLock", true}, "Locker.Unlock": {"LockerUnlock", false},
	}
	var rewrite func(parent ast.Node, e ast.Expr) ast.Expr
	defer func() {
		// the call of a defer or go statement is not an expression slot
		ast.Inspect(body, func(n ast.Node) bool {
			switch v := n.(type) {
			case *ast.DeferStmt:
				if c, ok := rewrite(v, v.Call).(*ast.CallExpr); ok {
					v.Call = c
				}
			case *ast.GoStmt:
				if c, ok := rewrite(v, v.Call).(*ast.CallExpr); ok {
					v.Call = c
				}
			}
			return true
		})
		replaceExprs(body, rewrite)
	}()
	rewrite = func(parent ast.Node, e ast.Expr) ast.Expr {
		c, ok := e.(*ast.CallExpr)
		if !ok {
			return e
		}
		se, ok := c.Fun.(*ast.SelectorExpr)
		if !ok {
			return e
		}
		if name, ok := pkgSel(c.Fun, "signal"); ok {
			switch name {
			case "Notify", "Stop", "Ignore", "Reset", "NotifyContext", "Ignored":
				nc := r.rtCall("Signal"+name, c.Args...)
				nc.Ellipsis = c.Ellipsis
				return nc
			}
		}
		if name, ok := pkgSel(c.Fun, "time"); ok && name == "AfterFunc" && len(c.Args) == 2 {
			return r.rtCall("AfterFunc", c.Args[0], c.Args[1], intLit(r.site("timer", c.Pos())))
		}
		sel := r.pkg.info.Selections[se]
		if sel == nil || sel.Kind() != types.MethodVal {
			return e
		}
		fn, ok := sel.Obj().(*types.Func)
		if !ok || fn.Pkg() == nil || fn.Pkg().Path() != "sync" {
			return e
		}
		sig, ok := fn.Type().(*types.Signature)
		if !ok || sig.Recv() == nil {
			return e
		}
		rt := sig.Recv().Type()
		if p, ok := rt.(*types.Pointer); ok {
			rt = p.Elem()
		}
		named, ok := rt.(*types.Named)
		if !ok {
			return e
		}
		ent, ok := table[named.Obj().Name()+"."+fn.Name()]
		if !ok {
			return e
		}
		_, isIface := named.Underlying().(*types.Interface)
		ptr := r.syncRecvPtr(se, sel, !isIface)
		if ptr == nil {
			r.skip("sync."+named.Obj().Name()+"."+fn.Name()+" left alone (receiver not resolved)", c.Pos())
			return e
		}
		args := append([]ast.Expr{ptr}, c.Args...)
		if ent.site {
			args = append(args, intLit(r.site("sync", c.Pos())))
		}
		return r.rtCall(ent.fn, args...)
	}
}

// ---- receive expressions -------------------------------------------------------

// replaceExprs applies f to every ast.Expr slot below root (pre-order: the walk then
// descends into the replacement).
func replaceExprs(root ast.Node, f func(parent ast.Node, e ast.Expr) ast.Expr) {
	exprType := reflect.TypeOf((*ast.Expr)(nil)).Elem()
	ast.Inspect(root, func(n ast.Node) bool {
		if n == nil {
			return false
		}
		v := reflect.ValueOf(n)
		if v.Kind() != reflect.Ptr || v.IsNil() {
			return true
		}
		v = v.Elem()
		if v.Kind() != reflect.Struct {
			return true
		}
		for i := 0; i < v.NumField(); i++ {
			fv := v.Field(i)
			if !fv.CanSet() {
				continue
			}
			switch {
			case fv.Type() == exprType:
				if !fv.IsNil() {
					ne := f(n, fv.Interface().(ast.Expr))
					fv.Set(reflect.ValueOf(&ne).Elem())
				}
			case fv.Kind() == reflect.Slice && fv.Type().Elem() == exprType:
				for j := 0; j < fv.Len(); j++ {
					ev := fv.Index(j)
					if !ev.IsNil() {
						ne := f(n, ev.Interface().(ast.Expr))
						ev.Set(reflect.ValueOf(&ne).Elem())
					}
				}
			}
		}
		return true
	})
}

// rewriteRecvs turns every receive expression that is not the communication of a select
// clause into verifrt.Recv / Recv2, whatever expression or statement it sits in.
func (r *rewriter) rewriteRecvs(body *ast.BlockStmt) {
	skip := map[*ast.UnaryExpr]bool{}
	two := map[*ast.UnaryExpr]bool{}
	ast.Inspect(body, func(n ast.Node) bool {
		switch v := n.(type) {
		case *ast.CommClause:
			switch c := v.Comm.(type) {
			case *ast.ExprStmt:
				if u, ok := isRecv(c.X); ok {
					skip[u] = true
				}
			case *ast.AssignStmt:
				if len(c.Rhs) == 1 {
					if u, ok := isRecv(c.Rhs[0]); ok {
						skip[u] = true
					}
				}
			}
		case *ast.AssignStmt:
			if len(v.Lhs) == 2 && len(v.Rhs) == 1 {
				if u, ok := isRecv(v.Rhs[0]); ok {
					two[u] = true
				}
			}
		case *ast.ValueSpec:
			if len(v.Names) == 2 && len(v.Values) == 1 {
				if u, ok := isRecv(v.Values[0]); ok {
					two[u] = true
				}
			}
		}
		return true
	})
	replaceExprs(body, func(parent ast.Node, e ast.Expr) ast.Expr {
		u, ok := e.(*ast.UnaryExpr)
		if !ok || u.Op != token.ARROW || skip[u] {
			return e
		}
		if t := r.typeOf(u.X); t != nil {
			if _, isChan := t.Underlying().(*types.Chan); !isChan {
				r.skip("receive from a non-channel-typed expression left alone", u.Pos())
				return e
			}
		}
		site := r.site("recv", u.Pos())
		fn := "Recv"
		if two[u] {
			fn = "Recv2"
		}
		return r.rtCall(fn, u.X, intLit(site))
	})
}

// pureChanExpr: an identifier or a chain of field selections.
func pureChanExpr(e ast.Expr) bool {
	switch v := e.(type) {
	case *ast.Ident:
		return true
	case *ast.SelectorExpr:
		return pureChanExpr(v.X)
	case *ast.ParenExpr:
		return pureChanExpr(v.X)
	}
	return false
}

// selectPolled rewrites a select whose cases are all plain receives (value discarded) from
// side-effect-free channel expressions, with or without default, so that the simulator owns
// the choice among ready cases:
//
//	h := Pre(site, KSelect); sel := -1
//	for _, i := range SelectOrder(site, n) { switch i { case 0: select { case <-c0: sel = 0; default: } ... }; if sel >= 0 { break } }
//	if sel < 0 { select { case <-c0: sel = 0; case <-c1: sel = 1 [default: sel = d] } }
//	Post(h, site); switch sel { case 0: body0 ... }
//
// With no engine SelectOrder is empty and the original select decides alone.
func (r *rewriter) selectPolled(s *ast.SelectStmt) []ast.Stmt {
	type cs struct {
		def    bool
		body   []ast.Stmt
		ch     ast.Expr // channel operand as written
		send   ast.Expr // value sent (send case)
		assign *ast.AssignStmt
		tc     string // temporaries: channel, value, received value, ok
		tv     string
		tr     string
		tok    string
	}
	var cases []*cs
	nComm := 0
	for _, c := range s.Body.List {
		cc := c.(*ast.CommClause)
		if cc.Comm == nil {
			cases = append(cases, &cs{def: true, body: cc.Body})
			continue
		}
		nComm++
		switch st := cc.Comm.(type) {
		case *ast.ExprStmt:
			u, ok := isRecv(st.X)
			if !ok {
				return nil
			}
			cases = append(cases, &cs{ch: u.X, body: cc.Body})
		case *ast.SendStmt:
			cases = append(cases, &cs{ch: st.Chan, send: st.Value, body: cc.Body})
		case *ast.AssignStmt:
			if len(st.Rhs) != 1 || len(st.Lhs) < 1 || len(st.Lhs) > 2 {
				return nil
			}
			u, ok := isRecv(st.Rhs[0])
			if !ok {
				return nil
			}
			cases = append(cases, &cs{ch: u.X, assign: st, body: cc.Body})
		default:
			return nil
		}
	}
	if nComm == 0 {
		return nil
	}
	// every channel operand and every value to send is evaluated exactly once, in source order, on
	// entering the select (as the language says); the polls and the blocking select use the temporaries
	var pre []ast.Stmt
	elemType := func(ch ast.Expr) ast.Expr {
		t := r.typeOf(ch)
		if t == nil {
			return nil
		}
		c, ok := t.Underlying().(*types.Chan)
		if !ok {
			return nil
		}
		ts, ok := r.typeStr(c.Elem())
		if !ok {
			return nil
		}
		return parseType(ts)
	}
	for _, c := range cases {
		if c.def {
			continue
		}
		simple := pureChanExpr(c.ch) && c.send == nil && c.assign == nil
		if simple {
			continue // re-evaluating an identifier or a field chain is harmless
		}
		if t := r.typeOf(c.ch); t == nil {
			return nil
		} else if _, ok := t.Underlying().(*types.Chan); !ok {
			return nil
		}
		c.tc = r.fresh("c")
		pre = append(pre, &ast.AssignStmt{Lhs: []ast.Expr{id(c.tc)}, Tok: token.DEFINE, Rhs: []ast.Expr{c.ch}})
		if c.send != nil {
			et := elemType(c.ch)
			if et == nil {
				return nil
			}
			c.tv = r.fresh("v")
			pre = append(pre, &ast.DeclStmt{Decl: &ast.GenDecl{Tok: token.VAR, Specs: []ast.Spec{&ast.ValueSpec{Names: []*ast.Ident{id(c.tv)}, Type: et, Values: []ast.Expr{c.send}}}}})
		}
		if c.assign != nil {
			et := elemType(c.ch)
			if et == nil {
				return nil
			}
			c.tr, c.tok = r.fresh("r"), r.fresh("ok")
			pre = append(pre,
				&ast.DeclStmt{Decl: &ast.GenDecl{Tok: token.VAR, Specs: []ast.Spec{&ast.ValueSpec{Names: []*ast.Ident{id(c.tr)}, Type: et}}}},
				&ast.DeclStmt{Decl: &ast.GenDecl{Tok: token.VAR, Specs: []ast.Spec{&ast.ValueSpec{Names: []*ast.Ident{id(c.tok)}, Type: id("bool")}}}},
				&ast.AssignStmt{Lhs: []ast.Expr{id("_"), id("_")}, Tok: token.ASSIGN, Rhs: []ast.Expr{id(c.tr), id(c.tok)}},
			)
		}
	}
	site := r.site("select", s.Pos())
	h := r.fresh("h")
	sel := r.fresh("sel")
	iv := r.fresh("i")
	setSel := func(i int) ast.Stmt {
		return &ast.AssignStmt{Lhs: []ast.Expr{id(sel)}, Tok: token.ASSIGN, Rhs: []ast.Expr{intLit(i)}}
	}
	comm := func(c *cs) ast.Stmt {
		ch := c.ch
		if c.tc != "" {
			ch = id(c.tc)
		}
		switch {
		case c.send != nil:
			return &ast.SendStmt{Chan: ch, Value: id(c.tv)}
		case c.assign != nil:
			return &ast.AssignStmt{Lhs: []ast.Expr{id(c.tr), id(c.tok)}, Tok: token.ASSIGN, Rhs: []ast.Expr{&ast.UnaryExpr{Op: token.ARROW, X: ch}}}
		}
		return &ast.ExprStmt{X: &ast.UnaryExpr{Op: token.ARROW, X: ch}}
	}
	// polling switch
	var pollCases []ast.Stmt
	for i, c := range cases {
		if c.def {
			continue
		}
		one := &ast.SelectStmt{Body: &ast.BlockStmt{List: []ast.Stmt{
			&ast.CommClause{Comm: comm(c), Body: []ast.Stmt{setSel(i)}},
			&ast.CommClause{Comm: nil, Body: nil},
		}}}
		pollCases = append(pollCases, &ast.CaseClause{List: []ast.Expr{intLit(i)}, Body: []ast.Stmt{one}})
	}
	poll := &ast.RangeStmt{Key: id("_"), Value: id(iv), Tok: token.DEFINE, X: r.rtCall("SelectOrder", intLit(site), intLit(len(cases))),
		Body: &ast.BlockStmt{List: []ast.Stmt{
			&ast.SwitchStmt{Tag: id(iv), Body: &ast.BlockStmt{List: pollCases}},
			&ast.IfStmt{Cond: &ast.BinaryExpr{X: id(sel), Op: token.GEQ, Y: intLit(0)}, Body: &ast.BlockStmt{List: []ast.Stmt{&ast.BranchStmt{Tok: token.BREAK}}}},
		}}}
	// blocking select (the original communication set)
	var blockCases []ast.Stmt
	for i, c := range cases {
		if c.def {
			blockCases = append(blockCases, &ast.CommClause{Comm: nil, Body: []ast.Stmt{setSel(i)}})
		} else {
			blockCases = append(blockCases, &ast.CommClause{Comm: comm(c), Body: []ast.Stmt{setSel(i)}})
		}
	}
	block := &ast.IfStmt{Cond: &ast.BinaryExpr{X: id(sel), Op: token.LSS, Y: intLit(0)}, Body: &ast.BlockStmt{List: []ast.Stmt{&ast.SelectStmt{Body: &ast.BlockStmt{List: blockCases}}}}}
	// dispatch: a receiving case with an assignment binds what was received, now
	var bodyCases []ast.Stmt
	for i, c := range cases {
		body := c.body
		if c.assign != nil {
			rhs := []ast.Expr{id(c.tr)}
			if len(c.assign.Lhs) == 2 {
				rhs = append(rhs, id(c.tok))
			}
			bind := &ast.AssignStmt{Lhs: c.assign.Lhs, Tok: c.assign.Tok, Rhs: rhs}
			body = append([]ast.Stmt{bind}, body...)
		}
		if i == len(cases)-1 {
			// the last clause is the switch's default: the selector is always one of the cases, and a select whose
			// clauses all end in a terminating statement stays a terminating statement (a function may end in it)
			bodyCases = append(bodyCases, &ast.CaseClause{List: nil, Body: body})
			continue
		}
		bodyCases = append(bodyCases, &ast.CaseClause{List: []ast.Expr{intLit(i)}, Body: body})
	}
	dispatch := &ast.SwitchStmt{Tag: id(sel), Body: &ast.BlockStmt{List: bodyCases}}
	out := append(pre,
		r.preStmt(h, site, "KSelect"),
		&ast.AssignStmt{Lhs: []ast.Expr{id(sel)}, Tok: token.DEFINE, Rhs: []ast.Expr{&ast.UnaryExpr{Op: token.SUB, X: intLit(1)}}},
		poll,
		block,
		r.postStmt(h, site),
		dispatch,
	)
	// (temporaries have fresh names; the dispatch switch stays last so that a label on the select moves to it)
	return out
}

// pkgSel2 is pkgSel for any node.
func pkgSel2(n ast.Node, pkg string) (string, bool) {
	e, ok := n.(ast.Expr)
	if !ok {
		return "", false
	}
	return pkgSel(e, pkg)
}
