// gscheck drives one check: snapshot /repo -> instrument -> build the engine ->
// replay the corpus -> seeded search on 16 workers -> minimise and confirm any
// violation in a fresh process -> evidence. Exit 0 held / 1 VIOLATION / 2 tool trouble.
package main

import (
	"encoding/binary"
	"encoding/json"
	"flag"
	"fmt"
	"os"
	"os/exec"
	"path/filepath"
	"regexp"
	"sort"
	"strconv"
	"strings"
	"sync"
	"time"

	"gsim/known"
	"gsim/world"
)

var (
	verif   = "/verif"
	repo    = "/repo"
	goBin   = "go1.26.8"
	workers = 16
)

type tierCfg struct {
	Worlds int     // fixed number of worlds: the same seed explores the same worlds
	CapS   float64 // wall-clock guard
}

// calibrated on the 16-core sandbox: quick ~30-40 s of search, thorough ~12-15 min
var tiers = map[string]map[string]tierCfg{
	"quick": {
		"C01": {60000, 120}, "C02": {60000, 120}, "C03": {40000, 120}, "C04": {60000, 120}, "C05": {30000, 120},
		"C06": {50000, 120}, "C07": {12000, 120}, "C08": {30000, 120}, "C09": {40000, 120}, "C10": {40000, 120},
		"C13": {30000, 120}, "C14": {60000, 120}, "C16": {24000, 150}, "C19": {60000, 120}, "C20": {40000, 120},
	},
	"thorough": {
		"C01": {1500000, 2400}, "C02": {1500000, 2400}, "C03": {1000000, 2400}, "C04": {1500000, 2400}, "C05": {700000, 2400},
		"C06": {1200000, 2400}, "C07": {300000, 2400}, "C08": {700000, 2400}, "C09": {1000000, 2400}, "C10": {1000000, 2400},
		"C13": {700000, 2400}, "C14": {700000, 2400}, "C16": {500000, 3000}, "C19": {1200000, 2400}, "C20": {1000000, 2400},
	},
}

func die2(format string, args ...any) {
	fmt.Printf("TOOL-TROUBLE "+format+"\n", args...)
	os.Exit(2)
}

func env() []string {
	e := os.Environ()
	e = append(e, "GOFLAGS=-mod=mod", "GOPROXY=off", "GOSUMDB=off", "GOTOOLCHAIN=local", "CGO_ENABLED=0")
	return e
}

func run(dir string, name string, args ...string) (string, error) {
	c := exec.Command(name, args...)
	c.Dir = dir
	c.Env = env()
	b, err := c.CombinedOutput()
	return string(b), err
}

type build struct {
	scratch string
	engine  string
	sites   string
	report  instrReport
	notes   []string
}

type instrReport struct {
	Sites   []json.RawMessage `json:"sites"`
	Skipped []string          `json:"skipped"`
	Knobs   []string          `json:"knobs"`
	Taps    []string          `json:"taps"`
	Buggify []string          `json:"buggify"`
	Counts  map[string]int    `json:"counts"`
	HasMain bool              `json:"has_main"`
}

func mkScratch() string {
	base := "/dev/shm"
	if st, err := os.Stat(base); err != nil || !st.IsDir() {
		base = os.TempDir()
	}
	d, err := os.MkdirTemp(base, "gsim-")
	if err != nil {
		die2("cannot create scratch dir: %v", err)
	}
	return d
}

func prepare() *build {
	b := &build{scratch: mkScratch()}
	gsinstr := filepath.Join(verif, "bin", "gsinstr")
	if _, err := os.Stat(gsinstr); err != nil {
		if out, err := run(filepath.Join(verif, "sim"), goBin, "build", "-o", gsinstr, "./cmd/gsinstr"); err != nil {
			die2("building gsinstr: %v\n%s", err, out)
		}
	}
	attempts := [][]string{nil, {"R4", "R5", "R6"}}
	var lastOut string
	for i, norules := range attempts {
		tree := filepath.Join(b.scratch, "gophersat")
		os.RemoveAll(tree)
		args := []string{"-src", repo, "-out", tree, "-rt", filepath.Join(verif, "sim", "rt")}
		if norules != nil {
			args = append(args, "-norules", strings.Join(norules, ","))
		}
		if out, err := run(verif, gsinstr, args...); err != nil {
			lastOut = out
			continue
		}
		mod := filepath.Join(b.scratch, "engine.mod")
		os.WriteFile(mod, []byte("module gsim\n\ngo 1.26\n\nrequire github.com/crillab/gophersat v0.0.0\n\nreplace github.com/crillab/gophersat => "+tree+"\n"), 0o644)
		os.WriteFile(filepath.Join(b.scratch, "engine.sum"), nil, 0o644)
		b.engine = filepath.Join(b.scratch, "engine.test")
		out, err := run(filepath.Join(verif, "sim"), goBin, "test", "-c", "-tags", "verifsim", "-modfile="+mod, "-o", b.engine, "./engine")
		if err != nil {
			lastOut = out
			if i == 0 {
				b.notes = append(b.notes, "instrumented build with knob/buggify/tap rules failed; retried without R4-R6")
			}
			continue
		}
		b.sites = filepath.Join(tree, "sites.json")
		if js, err := os.ReadFile(b.sites); err == nil {
			json.Unmarshal(js, &b.report)
		}
		if norules != nil {
			b.notes = append(b.notes, "seams unavailable in this tree: knobs, forced restarts, taps")
		}
		return b
	}
	os.RemoveAll(b.scratch)
	die2("cannot build the instrumented engine against %s:\n%s", repo, lastOut)
	return nil
}

type summary struct {
	Prop       string            `json:"prop"`
	Worker     int               `json:"worker"`
	Worlds     int               `json:"worlds"`
	NonTrivial int               `json:"nontrivial"`
	Decisions  int64             `json:"decisions"`
	Steps      int64             `json:"steps"`
	Switches   int64             `json:"switches"`
	SimNs      int64             `json:"sim_ns"`
	Probes     map[string]int    `json:"probes"`
	Faults     map[string]int    `json:"faults"`
	Strategies map[string]int    `json:"strategies"`
	TaskKinds  map[string]int    `json:"task_kinds"`
	Viol       []violRec         `json:"viol"`
	Tool       []string          `json:"tool"`
	WallS      float64           `json:"wall_s"`
	CutShort   bool              `json:"cut_short"`
	SiteIDs    []int32           `json:"site_ids"`
	Samples    []json.RawMessage `json:"samples"`
	Diverge    int               `json:"diverge"`
}

type violRec struct {
	Index     int    `json:"index"`
	Signature string `json:"signature"`
	Detail    string `json:"detail"`
	File      string `json:"file"`
	LogHash   string `json:"log_hash"`
}

type replayOut struct {
	Signature string   `json:"signature"`
	LogHash   string   `json:"log_hash"`
	Detail    string   `json:"detail"`
	Tool      string   `json:"tool"`
	AllViol   []string `json:"all_viol"`
}

var replayRe = regexp.MustCompile(`(?m)^GSIM-REPLAY (.*)$`)

// replayFresh replays a world file in a fresh process.
func (b *build) replayFresh(file string, timeout time.Duration) (*replayOut, string, error) {
	c := exec.Command(b.engine, "-test.run", "TestWorlds", "-test.timeout", "0", "-gsim.mode=replay", "-gsim.world="+file, "-gsim.sites="+b.sites)
	c.Env = env()
	done := make(chan struct{})
	var out []byte
	var err error
	go func() { out, err = c.CombinedOutput(); close(done) }()
	select {
	case <-done:
	case <-time.After(timeout):
		c.Process.Kill()
		<-done
		return nil, string(out), fmt.Errorf("replay timed out after %v", timeout)
	}
	m := replayRe.FindSubmatch(out)
	if m == nil {
		return nil, string(out), fmt.Errorf("replay produced no result line (exit: %v)", err)
	}
	var r replayOut
	if e := json.Unmarshal(m[1], &r); e != nil {
		return nil, string(out), e
	}
	return &r, string(out), nil
}

type evidence struct {
	PropertyID  string         `json:"property_id"`
	Tier        string         `json:"tier"`
	Seed        int64          `json:"seed"`
	Level       string         `json:"level"`
	Coverage    map[string]any `json:"coverage"`
	Assumptions []string       `json:"assumptions"`
	WallS       float64        `json:"wall_s"`
	Violations  int            `json:"violations"`
}

func main() {
	prop := flag.String("prop", "", "property id")
	tier := flag.String("tier", "quick", "quick | thorough")
	replayFile := flag.String("replay", "", "replay one world file and report")
	worldsFlag := flag.Int("worlds", 0, "override the number of worlds")
	keep := flag.Bool("keep", false, "keep the scratch directory")
	selftest := flag.Bool("selftest", false, "determinism self-test: same worlds in many fresh processes at GOMAXPROCS 1, 4 and 16; full event-log hashes must agree")
	flag.Parse()
	if v := os.Getenv("VERIF_TIER"); v != "" && flag.Lookup("tier").Value.String() == "quick" && !isFlagSet("tier") {
		*tier = v
	}
	seed := int64(1)
	if v := os.Getenv("VERIF_SEED"); v != "" {
		if n, err := strconv.ParseInt(v, 10, 64); err == nil {
			seed = n
		}
	}
	if v := os.Getenv("VERIF_WORKERS"); v != "" {
		if n, err := strconv.Atoi(v); err == nil && n > 0 {
			workers = n
		}
	}
	if wd, err := os.Getwd(); err == nil {
		if _, err := os.Stat(filepath.Join(wd, "sim", "rt")); err == nil {
			verif = wd // /verif itself, or a snapshot of it started by `vp run`
		}
	}
	if v := os.Getenv("GSIM_REPO"); v != "" {
		repo = v // developer aid: check another tree (sensitivity runs); never used by registered commands
	}
	start := time.Now()
	if *replayFile != "" {
		b := prepare()
		defer os.RemoveAll(b.scratch)
		w, _ := world.Load(*replayFile)
		if w != nil && w.Expect != nil && strings.HasPrefix(w.Expect.Signature, "C16/data-race") {
			// a race witness is replayed on Engine R: the world is run 200 times free-running under -race
			report, msg := b.raceReplay(*replayFile)
			if msg != "" {
				os.RemoveAll(b.scratch)
				die2("race replay: %s", msg)
			}
			code := 0
			if report != "" {
				fmt.Printf("%s\nVIOLATION property=C16 replay=%s\n", report, *replayFile)
				code = 1
			} else {
				fmt.Printf("replay %s: no data race reported in 200 free-running executions\n", *replayFile)
			}
			os.RemoveAll(b.scratch)
			os.Exit(code)
		}
		r, out, err := b.replayFresh(*replayFile, 10*time.Minute)
		if err != nil {
			os.RemoveAll(b.scratch)
			die2("replay: %v\n%s", err, out)
		}
		fmt.Printf("replay %s: signature=%q log_hash=%s\n%s\n", *replayFile, r.Signature, r.LogHash, r.Detail)
		code := 0
		if r.Signature != "" {
			p := ""
			if w != nil {
				p = w.Prop
			}
			fmt.Printf("VIOLATION property=%s replay=%s\n", p, *replayFile)
			code = 1
		}
		if w != nil && w.Expect != nil && w.Expect.LogHash != "" && w.Expect.LogHash != r.LogHash {
			fmt.Printf("note: event-log hash differs from the recorded one (%s): the tree under test differs from the one the replay was recorded on, or the run is not deterministic\n", w.Expect.LogHash)
		}
		os.RemoveAll(b.scratch)
		os.Exit(code)
	}
	if *selftest {
		os.Exit(selfTest(*prop, seed))
	}
	cfg, ok := tiers[*tier][*prop]
	if !ok {
		die2("no tier configuration for %s/%s", *prop, *tier)
	}
	if *worldsFlag > 0 {
		cfg.Worlds = *worldsFlag
	}
	if v := os.Getenv("VERIF_BUDGET_S"); v != "" {
		if f, err := strconv.ParseFloat(v, 64); err == nil {
			cfg.CapS = f
		}
	}
	fmt.Printf("gscheck property=%s tier=%s VERIF_SEED=%d worlds=%d workers=%d\n", *prop, *tier, seed, cfg.Worlds, workers)
	b := prepare()
	cleanup := func() {
		if !*keep {
			os.RemoveAll(b.scratch)
		}
	}
	outDir := filepath.Join(b.scratch, "out")
	os.MkdirAll(outDir, 0o755)
	buildS := time.Since(start).Seconds()

	kf := known.Load(filepath.Join(verif, "known_findings.json"))
	var violLines, knownLines []string
	violations := 0
	knownSeen := map[string]int{}

	// 1. corpus: committed corner-case and regression worlds must pass
	corpus, _ := filepath.Glob(filepath.Join(verif, "replays", "corpus", *prop, "*.json"))
	sort.Strings(corpus)
	corpusRun := 0
	for _, f := range corpus {
		r, out, err := b.replayFresh(f, 5*time.Minute)
		if err != nil {
			cleanup()
			die2("corpus replay %s: %v\n%s", f, err, out)
		}
		if r.Tool != "" {
			cleanup()
			die2("corpus replay %s: %s", f, r.Tool)
		}
		corpusRun++
		if r.Signature != "" {
			w, _ := world.Load(f)
			if w != nil && kf.Match(*prop, r.Signature, w) != nil {
				continue
			}
			violations++
			fmt.Printf("corpus world %s fails: %s\n%s\n", f, r.Signature, r.Detail)
			violLines = append(violLines, fmt.Sprintf("VIOLATION property=%s replay=%s", *prop, f))
		}
	}

	// 2. known findings: replay each witness
	for _, k := range kf.For(*prop) {
		wf := filepath.Join(verif, k.Witness)
		if _, err := os.Stat(wf); err != nil {
			fmt.Printf("note: witness %s of known finding %q is missing\n", k.Witness, k.ID)
			continue
		}
		r, out, err := b.replayFresh(wf, 5*time.Minute)
		if err != nil {
			cleanup()
			die2("known-finding witness %s: %v\n%s", wf, err, out)
		}
		if r.Signature != "" && k.MatchSig(r.Signature) {
			knownLines = append(knownLines, fmt.Sprintf("KNOWN-FINDING: property=%s %s [%s; witness %s]", *prop, k.What, r.Signature, k.Witness))
		} else if r.Signature != "" {
			w, _ := world.Load(wf)
			if w == nil || kf.Match(*prop, r.Signature, w) == nil {
				violations++
				fmt.Printf("witness %s now fails differently: %s\n%s\n", wf, r.Signature, r.Detail)
				violLines = append(violLines, fmt.Sprintf("VIOLATION property=%s replay=%s", *prop, wf))
			}
		} else {
			fmt.Printf("note: known finding %q no longer reproduces on this tree (witness %s passes)\n", k.ID, k.Witness)
		}
	}

	// 3. seeded search
	searchStart := time.Now()
	var wg sync.WaitGroup
	errs := make([]string, workers)
	for k := 0; k < workers; k++ {
		wg.Add(1)
		go func(k int) {
			defer wg.Done()
			c := exec.Command(b.engine, "-test.run", "TestWorlds", "-test.timeout", "0",
				"-gsim.mode=search", "-gsim.prop="+*prop, fmt.Sprintf("-gsim.seed=%d", seed),
				fmt.Sprintf("-gsim.from=%d", k), fmt.Sprintf("-gsim.to=%d", cfg.Worlds), fmt.Sprintf("-gsim.stride=%d", workers),
				"-gsim.tier="+*tier, "-gsim.out="+outDir, "-gsim.sites="+b.sites, fmt.Sprintf("-gsim.worker=%d", k),
				fmt.Sprintf("-gsim.budget=%g", cfg.CapS))
			c.Env = append(env(), "GOMAXPROCS=2")
			// watchdog: a worker that outlives the wall cap by far is stuck (for instance the tree under
			// test blocks on a sync.Mutex, which synctest cannot see as quiescence): tool trouble, never a verdict
			timer := time.AfterFunc(time.Duration((cfg.CapS*2+300)*float64(time.Second)), func() {
				if c.Process != nil {
					c.Process.Kill()
				}
			})
			out, err := c.CombinedOutput()
			timer.Stop()
			if err != nil {
				errs[k] = fmt.Sprintf("worker %d: %v\n%s", k, err, tail(string(out), 3000))
			}
		}(k)
	}
	wg.Wait()
	searchS := time.Since(searchStart).Seconds()
	total := &summary{Probes: map[string]int{}, Faults: map[string]int{}, Strategies: map[string]int{}, TaskKinds: map[string]int{}}
	sites := map[int32]bool{}
	distinct := map[uint64]bool{}
	distinctSw := map[uint64]bool{}
	missing := 0
	for k := 0; k < workers; k++ {
		js, err := os.ReadFile(filepath.Join(outDir, fmt.Sprintf("summary-%s-w%d.json", *prop, k)))
		if err != nil {
			missing++
			continue
		}
		var s summary
		if json.Unmarshal(js, &s) != nil {
			missing++
			continue
		}
		total.Worlds += s.Worlds
		total.NonTrivial += s.NonTrivial
		total.Decisions += s.Decisions
		total.Steps += s.Steps
		total.Switches += s.Switches
		total.SimNs += s.SimNs
		total.Diverge += s.Diverge
		total.CutShort = total.CutShort || s.CutShort
		for k, v := range s.Probes {
			total.Probes[k] += v
		}
		for k, v := range s.Faults {
			total.Faults[k] += v
		}
		for k, v := range s.Strategies {
			total.Strategies[k] += v
		}
		for k, v := range s.TaskKinds {
			total.TaskKinds[k] += v
		}
		total.Viol = append(total.Viol, s.Viol...)
		total.Tool = append(total.Tool, s.Tool...)
		for _, id := range s.SiteIDs {
			sites[id] = true
		}
		if len(total.Samples) < 3 {
			total.Samples = append(total.Samples, s.Samples...)
		}
		hb, _ := os.ReadFile(filepath.Join(outDir, fmt.Sprintf("hashes-%s-w%d.bin", *prop, k)))
		for i := 0; i+8 <= len(hb); i += 8 {
			distinct[binary.LittleEndian.Uint64(hb[i:])] = true
		}
		sb, _ := os.ReadFile(filepath.Join(outDir, fmt.Sprintf("switches-%s-w%d.bin", *prop, k)))
		for i := 0; i+8 <= len(sb); i += 8 {
			distinctSw[binary.LittleEndian.Uint64(sb[i:])] = true
		}
	}
	if missing > 0 {
		// a worker died (fatal runtime error, e.g. concurrent map access or stack overflow): that is a finding
		// candidate, but without a world it cannot be reported as a violation
		var msgs []string
		for _, e := range errs {
			if e != "" {
				msgs = append(msgs, e)
			}
		}
		cleanup()
		die2("%d worker(s) produced no summary:\n%s", missing, strings.Join(msgs, "\n"))
	}
	if len(total.Tool) > 0 {
		cleanup()
		die2("engine reported tool trouble: %s", strings.Join(total.Tool, "\n"))
	}

	// 3a. C16 only: Engine R, the same worlds free-running under the race detector on the untouched tree
	raceInfo := map[string]any{}
	if *prop == "C16" {
		nw := 1500
		if *tier == "thorough" {
			nw = 40000
		}
		races, info, msg := b.raceRun(seed, *tier, nw, outDir)
		if msg != "" {
			cleanup()
			die2("engine R: %s", msg)
		}
		raceInfo = info
		for _, rc := range races {
			if k := kf.Match(*prop, rc.sig, rc.w); k != nil {
				knownSeen[k.ID]++
				continue
			}
			os.MkdirAll(filepath.Join(verif, "replays"), 0o755)
			dst := filepath.Join(verif, "replays", fmt.Sprintf("C16-race-seed%d-w%d.json", seed, rc.w.Index))
			rc.w.Expect = &world.Expect{Signature: rc.sig, Detail: rc.report}
			rc.w.Save(dst)
			violations++
			fmt.Printf("--- violation %s (world %d, seed %d, engine R)\n%s\n", rc.sig, rc.w.Index, seed, rc.report)
			violLines = append(violLines, fmt.Sprintf("VIOLATION property=%s replay=%s", *prop, dst))
		}
		fmt.Printf("engine R (race detector, untouched tree): %v\n", info)
	}

	// 3b. C19 only: validate the in-process rewrite of main.go (R7) against the real binary
	xchecked := 0
	if *prop == "C19" {
		n, msg := b.crossCheckCLI(seed, *tier, outDir)
		if msg != "" {
			cleanup()
			die2("in-process CLI and real binary disagree (instrumentation problem, not a violation): %s", msg)
		}
		xchecked = n
		fmt.Printf("real-binary cross-check: %d worlds, stdout (comment lines aside) and exit status identical\n", n)
	}

	// 4. violations: group by signature, lowest index first
	sort.Slice(total.Viol, func(i, j int) bool { return total.Viol[i].Index < total.Viol[j].Index })
	seenSig := map[string]bool{}
	reported := 0
	unrepro := 0
	for _, v := range total.Viol {
		if seenSig[v.Signature] {
			continue
		}
		w, err := world.Load(v.File)
		if err != nil {
			continue
		}
		if k := kf.Match(*prop, v.Signature, w); k != nil {
			knownSeen[k.ID]++
			continue // a listed finding; its KNOWN-FINDING line comes from the witness replay
		}
		seenSig[v.Signature] = true
		if strings.HasPrefix(v.Signature, "TOOL/") {
			cleanup()
			die2("harness error in world %d: %s: %s", v.Index, v.Signature, v.Detail)
		}
		if reported >= 5 {
			continue
		}
		// minimise in a worker process, then confirm in a fresh one
		minFile := filepath.Join(outDir, fmt.Sprintf("min-%s-%d.json", *prop, v.Index))
		mc := exec.Command(b.engine, "-test.run", "TestWorlds", "-test.timeout", "0", "-gsim.mode=min", "-gsim.world="+v.File, "-gsim.out="+minFile, "-gsim.sites="+b.sites, "-gsim.budget=90")
		mc.Env = env()
		mc.CombinedOutput()
		final := v.File
		if _, err := os.Stat(minFile); err == nil {
			if r, _, err := b.replayFresh(minFile, 5*time.Minute); err == nil && r.Signature == v.Signature {
				final = minFile
			}
		}
		r, out, err := b.replayFresh(final, 5*time.Minute)
		if err != nil {
			cleanup()
			die2("replay of violating world %d failed: %v\n%s", v.Index, err, out)
		}
		if r.Signature != v.Signature {
			// try the unminimised world, a few times, before giving up on it
			final = v.File
			for try := 0; try < 3 && r.Signature != v.Signature; try++ {
				if r, out, err = b.replayFresh(final, 5*time.Minute); err != nil {
					cleanup()
					die2("replay of violating world %d failed: %v\n%s", v.Index, err, out)
				}
			}
		}
		if r.Signature != v.Signature {
			// the tree under test has a source of nondeterminism the simulator does not own (for
			// instance a sync.Pool, or a map range gsinstr could not rewrite): the observation is
			// reported but cannot be a VIOLATION line, because its replay file would not replay
			unrepro++
			fmt.Printf("UNREPRODUCIBLE world %d (seed %d): the search run saw %s but fresh processes do not reproduce it (got %q); detail of the observation: %s\n", v.Index, seed, v.Signature, r.Signature, clipS(v.Detail, 600))
			continue
		}
		os.MkdirAll(filepath.Join(verif, "replays"), 0o755)
		dst := filepath.Join(verif, "replays", fmt.Sprintf("%s-seed%d-w%d.json", *prop, seed, v.Index))
		fw, _ := world.Load(final)
		fw.Expect = &world.Expect{Signature: r.Signature, LogHash: r.LogHash, Detail: r.Detail}
		fw.Save(dst)
		violations++
		reported++
		fmt.Printf("--- violation %s (world %d, seed %d)\n%s\n", r.Signature, v.Index, seed, r.Detail)
		violLines = append(violLines, fmt.Sprintf("VIOLATION property=%s replay=%s", *prop, dst))
	}

	// 5. evidence
	wall := time.Since(start).Seconds()
	ev := evidence{PropertyID: *prop, Tier: *tier, Seed: seed, Level: "exploration", WallS: wall, Violations: violations}
	var samples []any
	for _, s := range total.Samples {
		var x any
		json.Unmarshal(s, &x)
		samples = append(samples, x)
	}
	if len(samples) == 0 {
		samples = append(samples, "no non-trivial world in this run")
	}
	perHour := 0.0
	if searchS > 0 {
		perHour = float64(total.Worlds) / searchS * 3600
	}
	ev.Coverage = map[string]any{
		"evaluations":                    total.Worlds,
		"distinct_nontrivial":            len(distinct),
		"rule":                           "one evaluation = one simulated world (workload + environment + knobs + schedule) generated from SplitMix64(VERIF_SEED, property, index) and executed under the deterministic scheduler; a world is non-trivial when the scheduler made more than 3 decisions, switched task at least twice, or the solver met a conflict; two worlds are distinct when the FNV-64 hashes of their full event logs (every scheduling decision with task and site, every channel event, every outcome) differ",
		"samples":                        samples,
		"worlds_per_hour":                int64(perHour),
		"seeds_per_hour":                 int64(perHour),
		"search_wall_s":                  searchS,
		"build_wall_s":                   buildS,
		"scheduler_decisions":            total.Decisions,
		"context_switches":               total.Switches,
		"distinct_interleavings":         len(distinctSw),
		"distinct_interleavings_measure": "number of distinct hashes of the sequence of (task switched to, site it resumes at) over all worlds with at least two task switches",
		"yield_steps":                    total.Steps,
		"simulated_time_s":               float64(total.SimNs) / 1e9,
		"faults_fired":                   total.Faults,
		"probes":                         total.Probes,
		"strategies":                     total.Strategies,
		"task_kinds":                     total.TaskKinds,
		"divergences_not_judged":         total.Diverge,
		"instrumentation": map[string]any{
			"sites_total":   len(b.report.Sites),
			"sites_reached": len(sites),
			"sites_reached_ids": func() []int {
				var ids []int
				for id := range sites {
					ids = append(ids, int(id))
				}
				sort.Ints(ids)
				return ids
			}(),
			"by_kind": b.report.Counts,
			"knobs":   b.report.Knobs,
			"taps":    b.report.Taps,
			"buggify": b.report.Buggify,
			"skipped": b.report.Skipped,
			"notes":   b.notes,
		},
		"corpus_worlds_replayed":          corpusRun,
		"real_binary_crosschecked_worlds": xchecked,
		"engine_R_race_detector":          raceInfo,
		"known_findings_matched":          knownSeen,
		"cut_short_by_wall_cap":           total.CutShort,
		"workers":                         workers,
		"real_code":                       "solver, maxsat, explain, bf and main.go of the tree under test (instrumented copy: added hook calls, map-range and knob rewrites only); Go channels and goroutines",
		"stubs":                           "clock (testing/synctest fake time), goroutine choice (scheduler), map iteration order, io.Reader arguments (SimReader), file system / argv / exit / stdout (C19), consumers and producers at the API boundary",
	}
	ev.Assumptions = []string{
		"seeded sampling, not enumeration: a clean run is evidence, not proof",
		"oracles are independent reference models (enumeration for n<=16, naive DPLL and RUP checker otherwise) on the constraints as written",
		"the instrumented copy behaves as the shipped code when no hook is installed (the repository's own tests pass on it; checked by setup and the thorough tier)",
		"go1.26.8 testing/synctest quiescence detection and fake clock are trusted",
	}
	evDir := filepath.Join(verif, "evidence")
	if os.Getenv("GSIM_REPO") != "" {
		// a developer run against another tree never touches the committed evidence
		evDir = filepath.Join(os.TempDir(), "gsim-evidence-othertree")
	}
	os.MkdirAll(evDir, 0o755)
	js, _ := json.MarshalIndent(ev, "", " ")
	os.WriteFile(filepath.Join(evDir, *prop+".json"), append(js, '\n'), 0o644)

	fmt.Printf("explored %d worlds (%d distinct non-trivial) in %.1fs search (+%.1fs build); decisions=%d switches=%d sim_time=%.0fs sites=%d/%d\n",
		total.Worlds, len(distinct), searchS, buildS, total.Decisions, total.Switches, float64(total.SimNs)/1e9, len(sites), len(b.report.Sites))
	fmt.Printf("faults fired: %v\nprobes: %v\n", total.Faults, total.Probes)
	for _, l := range knownLines {
		fmt.Println(l)
	}
	for _, l := range violLines {
		fmt.Println(l)
	}
	cleanup()
	if violations > 0 {
		os.Exit(1)
	}
	if unrepro > 0 {
		die2("%d observation(s) could not be reproduced in a fresh process and nothing else was found: the check cannot decide", unrepro)
	}
	if total.Worlds == 0 {
		die2("no world was executed")
	}
	os.Exit(0)
}

func isFlagSet(name string) bool {
	set := false
	flag.Visit(func(f *flag.Flag) {
		if f.Name == name {
			set = true
		}
	})
	return set
}

func tail(s string, n int) string {
	if len(s) > n {
		return s[len(s)-n:]
	}
	return s
}

type cliRecord struct {
	Index  int      `json:"index"`
	Argv   []string `json:"argv"`
	Path   string   `json:"path"`
	Data   string   `json:"data"`
	Stdout string   `json:"stdout"`
	Exit   int      `json:"exit"`
}

// crossCheckCLI builds the untouched main package with the default toolchain and compares it,
// byte for byte, with the in-process runs of fault-free worlds at shipped constants.
func (b *build) crossCheckCLI(seed int64, tier, outDir string) (int, string) {
	real := filepath.Join(b.scratch, "gophersat-real")
	if out, err := run(repo, "go", "build", "-o", real, "."); err != nil {
		return 0, "cannot build the real binary: " + err.Error() + "\n" + out
	}
	recFile := filepath.Join(outDir, "clix.json")
	c := exec.Command(b.engine, "-test.run", "TestCLIX", "-test.timeout", "0", "-gsim.mode=clix", fmt.Sprintf("-gsim.seed=%d", seed), "-gsim.from=0", "-gsim.to=3000", "-gsim.tier="+tier, "-gsim.out="+recFile, "-gsim.sites="+b.sites)
	c.Env = env()
	if out, err := c.CombinedOutput(); err != nil {
		return 0, "clix run failed: " + err.Error() + "\n" + tail(string(out), 2000)
	}
	js, err := os.ReadFile(recFile)
	if err != nil {
		return 0, err.Error()
	}
	var recs []cliRecord
	if err := json.Unmarshal(js, &recs); err != nil {
		return 0, err.Error()
	}
	dir := filepath.Join(b.scratch, "clix")
	os.MkdirAll(dir, 0o755)
	n := 0
	for _, r := range recs {
		os.WriteFile(filepath.Join(dir, r.Path), []byte(r.Data), 0o644)
		cmd := exec.Command(real, r.Argv[1:]...)
		cmd.Dir = dir
		var so strings.Builder
		cmd.Stdout = &so
		err := cmd.Run()
		code := 0
		if ee, ok := err.(*exec.ExitError); ok {
			code = ee.ExitCode()
		} else if err != nil {
			return n, err.Error()
		}
		os.Remove(filepath.Join(dir, r.Path))
		// comment lines may legitimately carry timings or other run-dependent text: compare the rest
		if code != r.Exit || stripComments(so.String()) != stripComments(r.Stdout) {
			return n, fmt.Sprintf("world %d argv=%v: real exit=%d stdout=%q; in-process exit=%d stdout=%q", r.Index, r.Argv, code, so.String(), r.Exit, r.Stdout)
		}
		n++
	}
	if n == 0 {
		return 0, "no eligible world"
	}
	return n, ""
}

type raceRec struct {
	sig    string
	report string
	w      *world.World
}

var raceFrame = regexp.MustCompile(`github\.com/crillab/gophersat/([A-Za-z0-9_./()*]+)`)

// raceRun builds the racer against the untouched tree with -race and runs the first nw C16
// worlds at GOMAXPROCS 1, 4 and 16. A report with a gophersat frame is a violation; a report
// entirely in harness code is tool trouble.
func (b *build) raceRun(seed int64, tier string, nw int, outDir string) ([]raceRec, map[string]any, string) {
	mod := filepath.Join(b.scratch, "racer.mod")
	os.WriteFile(mod, []byte("module gsim\n\ngo 1.26\n\nrequire github.com/crillab/gophersat v0.0.0\n\nreplace github.com/crillab/gophersat => "+repo+"\n"), 0o644)
	os.WriteFile(filepath.Join(b.scratch, "racer.sum"), nil, 0o644)
	bin := filepath.Join(b.scratch, "racer.test")
	c := exec.Command(goBin, "test", "-c", "-race", "-modfile="+mod, "-o", bin, "./racer")
	c.Dir = filepath.Join(verif, "sim")
	var e2 []string
	for _, kv := range env() {
		if !strings.HasPrefix(kv, "CGO_ENABLED=") {
			e2 = append(e2, kv)
		}
	}
	c.Env = append(e2, "CGO_ENABLED=1")
	if out, err := c.CombinedOutput(); err != nil {
		return nil, nil, "cannot build the -race binary: " + err.Error() + "\n" + tail(string(out), 2000)
	}
	type res struct {
		out string
		err error
	}
	procs := []int{1, 4, 16}
	results := make([]res, len(procs))
	var wg sync.WaitGroup
	start := time.Now()
	for i, p := range procs {
		wg.Add(1)
		go func(i, p int) {
			defer wg.Done()
			cmd := exec.Command(bin, "-test.run", "TestRace", "-test.timeout", "0", fmt.Sprintf("-gsim.seed=%d", seed), "-gsim.from=0", fmt.Sprintf("-gsim.to=%d", nw), "-gsim.tier="+tier)
			cmd.Env = append(e2, fmt.Sprintf("GOMAXPROCS=%d", p), "GORACE=halt_on_error=0")
			o, err := cmd.CombinedOutput()
			results[i] = res{string(o), err}
		}(i, p)
	}
	wg.Wait()
	info := map[string]any{"worlds_per_setting": nw, "gomaxprocs": procs, "wall_s": time.Since(start).Seconds(), "tree": "untouched " + repo + " built with -race"}
	var recs []raceRec
	seen := map[string]bool{}
	nReports := 0
	for _, r := range results {
		lastWorld := -1
		blocks := strings.Split(r.out, "==================")
		for _, blk := range blocks {
			// track the world marker lines that precede each report
			for _, ln := range strings.Split(blk, "\n") {
				if strings.HasPrefix(ln, "GSIM-WORLD ") {
					fmt.Sscanf(ln, "GSIM-WORLD %d", &lastWorld)
				}
			}
			if !strings.Contains(blk, "WARNING: DATA RACE") {
				continue
			}
			nReports++
			frames := raceFrame.FindAllStringSubmatch(blk, -1)
			if len(frames) == 0 {
				return nil, info, "race report without a gophersat frame (harness race):\n" + tail(blk, 1500)
			}
			var uniq []string
			fs := map[string]bool{}
			for _, f := range frames {
				name := strings.TrimSuffix(f[1], "()")
				if !fs[name] && len(uniq) < 2 {
					fs[name] = true
					uniq = append(uniq, name)
				}
			}
			sig := "C16/data-race:" + strings.Join(uniq, "+")
			if seen[sig] || lastWorld < 0 {
				continue
			}
			seen[sig] = true
			// the race happened in world lastWorld (or one that was still finishing); regenerate it
			o, err := exec.Command(filepath.Join(verif, "bin", "gsworld"), "-prop", "C16", "-seed", fmt.Sprint(seed), "-idx", fmt.Sprint(lastWorld), "-tier", tier).Output()
			if err != nil {
				return nil, info, "gsworld failed: " + err.Error()
			}
			var w world.World
			if json.Unmarshal(o, &w) != nil {
				return nil, info, "gsworld output unreadable"
			}
			recs = append(recs, raceRec{sig: sig, report: strings.TrimSpace(tail(blk, 2500)), w: &w})
		}
		if r.err != nil && !strings.Contains(r.out, "WARNING: DATA RACE") {
			return nil, info, "racer process failed: " + r.err.Error() + "\n" + tail(r.out, 1500)
		}
	}
	stuck := 0
	for _, r := range results {
		stuck += strings.Count(r.out, "GSIM-STUCK ")
	}
	if stuck > 0 {
		info["processes_stopped_at_a_stuck_world"] = stuck
	}
	info["race_reports"] = nReports
	info["distinct_race_signatures"] = len(recs)
	return recs, info, ""
}

func (b *build) raceReplay(file string) (string, string) {
	mod := filepath.Join(b.scratch, "racer.mod")
	os.WriteFile(mod, []byte("module gsim\n\ngo 1.26\n\nrequire github.com/crillab/gophersat v0.0.0\n\nreplace github.com/crillab/gophersat => "+repo+"\n"), 0o644)
	os.WriteFile(filepath.Join(b.scratch, "racer.sum"), nil, 0o644)
	bin := filepath.Join(b.scratch, "racer.test")
	var e2 []string
	for _, kv := range env() {
		if !strings.HasPrefix(kv, "CGO_ENABLED=") {
			e2 = append(e2, kv)
		}
	}
	c := exec.Command(goBin, "test", "-c", "-race", "-modfile="+mod, "-o", bin, "./racer")
	c.Dir = filepath.Join(verif, "sim")
	c.Env = append(e2, "CGO_ENABLED=1")
	if out, err := c.CombinedOutput(); err != nil {
		return "", "cannot build the -race binary: " + err.Error() + "\n" + tail(string(out), 2000)
	}
	cmd := exec.Command(bin, "-test.run", "TestRace", "-test.timeout", "0", "-gsim.to=1", "-gsim.world="+file)
	cmd.Env = append(e2, "GOMAXPROCS=4", "GORACE=halt_on_error=0")
	o, _ := cmd.CombinedOutput()
	out := string(o)
	i := strings.Index(out, "WARNING: DATA RACE")
	if i < 0 {
		return "", ""
	}
	blk := out[i:]
	if j := strings.Index(blk, "=================="); j > 0 {
		blk = blk[:j]
	}
	if !strings.Contains(blk, "github.com/crillab/gophersat/") {
		return "", "race report without a gophersat frame:\n" + tail(blk, 1500)
	}
	return strings.TrimSpace(blk), ""
}

// selfTest proves determinism before anything is believed (DESIGN.md section 7): for every
// property (or one), 300 worlds are executed in 6 fresh processes (GOMAXPROCS 1, 4, 16, twice
// each) and 60 of them in 30 more processes; every process must produce the same event-log
// hash, violation signature, decision and switch count for every world.
func selfTest(only string, seed int64) int {
	b := prepare()
	defer os.RemoveAll(b.scratch)
	props := []string{"C01", "C02", "C03", "C04", "C05", "C06", "C07", "C08", "C09", "C10", "C13", "C14", "C16", "C19", "C20"}
	if only != "" {
		props = []string{only}
	}
	bad := 0
	for _, p := range props {
		runSet := func(n, procs int, gmp []int) (map[string]int, error) {
			outs := make([]string, procs)
			var wg sync.WaitGroup
			errs := make([]error, procs)
			for i := 0; i < procs; i++ {
				wg.Add(1)
				go func(i int) {
					defer wg.Done()
					f := filepath.Join(b.scratch, fmt.Sprintf("det-%s-%d-%d.txt", p, n, i))
					c := exec.Command(b.engine, "-test.run", "TestWorlds", "-test.timeout", "0", "-gsim.mode=det", "-gsim.prop="+p, fmt.Sprintf("-gsim.seed=%d", seed), "-gsim.from=0", fmt.Sprintf("-gsim.to=%d", n), "-gsim.out="+f, "-gsim.sites="+b.sites)
					c.Env = append(env(), fmt.Sprintf("GOMAXPROCS=%d", gmp[i%len(gmp)]))
					if o, err := c.CombinedOutput(); err != nil {
						errs[i] = fmt.Errorf("%v: %s", err, tail(string(o), 500))
						return
					}
					d, _ := os.ReadFile(f)
					outs[i] = string(d)
					os.Remove(f)
				}(i)
			}
			wg.Wait()
			distinct := map[string]int{}
			for i, o := range outs {
				if errs[i] != nil {
					return nil, errs[i]
				}
				distinct[o]++
			}
			return distinct, nil
		}
		d1, err := runSet(300, 6, []int{1, 4, 16})
		if err != nil {
			fmt.Printf("selftest %s: process failed: %v\n", p, err)
			bad++
			continue
		}
		d2, err := runSet(60, 30, []int{1, 4, 16, 2, 8})
		if err != nil {
			fmt.Printf("selftest %s: process failed: %v\n", p, err)
			bad++
			continue
		}
		if len(d1) != 1 || len(d2) != 1 {
			fmt.Printf("selftest %s: NONDETERMINISM: %d distinct logs over 6 processes x 300 worlds, %d over 30 processes x 60 worlds\n", p, len(d1), len(d2))
			bad++
			continue
		}
		fmt.Printf("selftest %s: 300 worlds x 6 processes and 60 worlds x 30 processes (GOMAXPROCS 1,2,4,8,16): identical event-log hashes\n", p)
	}
	if bad > 0 {
		return 2
	}
	return 0
}

func clipS(s string, n int) string {
	if len(s) > n {
		return s[:n] + "..."
	}
	return s
}

func stripComments(out string) string {
	var keep []string
	for _, ln := range strings.Split(out, "\n") {
		if ln == "c" || strings.HasPrefix(ln, "c ") {
			continue
		}
		keep = append(keep, ln)
	}
	return strings.Join(keep, "\n")
}
