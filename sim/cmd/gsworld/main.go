// gsworld prints world idx of a property (developer aid).
package main

import (
	"encoding/json"
	"flag"
	"fmt"

	"gsim/gen"
)

func main() {
	prop := flag.String("prop", "C16", "")
	seed := flag.Uint64("seed", 1, "")
	idx := flag.Int("idx", 0, "")
	tier := flag.String("tier", "quick", "")
	flag.Parse()
	w := gen.World(*prop, *seed, *idx, *tier)
	b, _ := json.Marshal(w)
	fmt.Println(string(b))
}
