// gsworld prints world idx of a property (developer aid); with -minn it lists the indices below -to of the
// worlds whose first task declares at least that many variables.
package main

import (
	"encoding/json"
	"flag"
	"fmt"

	"gsim/gen"
)

func main() {
	prop := flag.String("prop", "C16", "")
	seed := flag.Uint64("seed", 1, "")
	idx := flag.Int("idx", 0, "")
	tier := flag.String("tier", "quick", "")
	minn := flag.Int("minn", 0, "")
	to := flag.Int("to", 0, "")
	flag.Parse()
	if *minn > 0 {
		for i := 0; i < *to; i++ {
			w := gen.World(*prop, *seed, i, *tier)
			if len(w.Tasks) > 0 && w.Tasks[0].N >= *minn {
				fmt.Println(i, w.Tasks[0].N, len(w.Tasks[0].Clauses), w.Tasks[0].Argv, w.Sched.Strategy, w.Sched.Burst)
			}
		}
		return
	}
	w := gen.World(*prop, *seed, *idx, *tier)
	b, _ := json.Marshal(w)
	fmt.Println(string(b))
}
