module gsim

go 1.26

require github.com/crillab/gophersat v0.0.0

replace github.com/crillab/gophersat => /repo
