module gsim

go 1.26
