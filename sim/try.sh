#!/bin/bash
# usage: try.sh PROP [to] [seed]
P=$1; TO=${2:-300}; SEED=${3:-7}
cd /dev/shm/gs1 && rm -f out/* && ./engine.test -test.run TestWorlds -gsim.mode=search -gsim.prop=$P -gsim.seed=$SEED -gsim.from=0 -gsim.to=$TO -gsim.out=/dev/shm/gs1/out -gsim.sites=/dev/shm/gs1/gophersat/sites.json 2>&1 | grep -v "^PASS" | head -20
python3 -c "
import json,sys
s=json.load(open('/dev/shm/gs1/out/summary-$P-w0.json'))
for v in (s['viol'] or []): print(v['index'], v['signature']); print('   ', v['detail'][:${DET:-700}].replace('\n','\n    ')); print()
print('worlds',s['worlds'],'wall',round(s['wall_s'],2),'tool',s['tool'])
print('probes',s['probes'])
print('faults',s['faults'])"
