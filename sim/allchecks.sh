#!/bin/bash
# usage: allchecks.sh <tree> [props...]  -- quick tier of every check against another tree (GSIM_REPO); prints non-zero exits
export GOFLAGS=-mod=mod GOPROXY=off GOSUMDB=off GOTOOLCHAIN=local
T=$1; shift
PROPS=${@:-C01 C02 C03 C04 C05 C06 C07 C08 C09 C10 C13 C14 C16 C19 C20}
cd /verif
for p in $PROPS; do
  GSIM_REPO=$T ./check $p quick > /tmp/all-$p.log 2>&1; rc=$?
  echo "$p exit=$rc $(grep -m2 -E '^--- violation|TOOL-TROUBLE|UNREPRO' /tmp/all-$p.log | cut -c1-160 | tr '\n' ' ')"
  rm -f replays/$p-seed*.json replays/$p-race-seed*.json
done
