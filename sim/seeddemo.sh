#!/bin/bash
# usage: seeddemo.sh <PROP>  -- runs the seed's demonstration without and with its patch in a scratch worktree
export GOFLAGS=-mod=mod GOPROXY=off GOSUMDB=off GOTOOLCHAIN=local
P=$1; OUT=${SEEDPFX:-/tmp/seed}-$P-out; W=/tmp/demo-$P-$$
git -C /repo worktree add -q --detach $W HEAD || exit 2
trap "git -C /repo worktree remove --force $W" EXIT
run_demo() {
  if [ -f $OUT/demo.sh ]; then
    (cd $W && sed "s#${SEEDPFX:-/tmp/seed}-$P#$W#g" $OUT/demo.sh > /tmp/demo-$P.sh && bash /tmp/demo-$P.sh > /tmp/demo-$P.log 2>&1); return $?
  fi
  pkg=$(grep -m1 '^package ' $OUT/demo_test.go | awk '{print $2}' | sed 's/_test$//')
  cp $OUT/demo_test.go $W/$pkg/zz_demo_test.go
  (cd $W && timeout 1200 go test -vet=off -count=1 -run 'C[0-9][0-9]|Demo' ./$pkg/ > /tmp/demo-$P.log 2>&1); rc=$?
  rm -f $W/$pkg/zz_demo_test.go
  return $rc
}
run_demo; a=$?
git -C $W apply $OUT/patch.diff || { echo "$P: patch does not apply"; exit 2; }
run_demo; b=$?
echo "$P demo: without change exit=$a (want 0), with change exit=$b (want non-zero)"
