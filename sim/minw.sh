#!/bin/bash
# usage: minw.sh candfile
cd /dev/shm/gs1 && ./engine.test -test.run TestWorlds -gsim.mode=min -gsim.world=$1 -gsim.out=/dev/shm/gs1/out/min.json -gsim.budget=${B:-60} -gsim.sites=/dev/shm/gs1/gophersat/sites.json 2>&1 | grep GSIM
python3 -c "
import json
w=json.load(open('/dev/shm/gs1/out/min.json'))
e=w.pop('expect')
print(json.dumps(w))
print(e['signature']); print(e['detail'][:1500])"
