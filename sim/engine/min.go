package engine

import (
	"fmt"
	"strings"
	"testing"
	"time"

	"gsim/ref"
	"gsim/world"
)

// canonical text renderings used once an instance is being shrunk
func canonDimacs(n int, cl [][]int) string {
	var b strings.Builder
	fmt.Fprintf(&b, "p cnf %d %d\n", n, len(cl))
	for _, c := range cl {
		for _, l := range c {
			fmt.Fprintf(&b, "%d ", l)
		}
		b.WriteString("0\n")
	}
	return b.String()
}

func canonOPB(cs []ref.Con, cost *ref.Cost) string {
	var b strings.Builder
	term := func(w, l int) string {
		if l < 0 {
			return fmt.Sprintf("%+d ~x%d ", w, -l)
		}
		return fmt.Sprintf("%+d x%d ", w, l)
	}
	if cost != nil {
		b.WriteString("min: ")
		for i, l := range cost.Lits {
			w := 1
			if cost.Coefs != nil {
				w = cost.Coefs[i]
			}
			b.WriteString(term(w, l))
		}
		b.WriteString(";\n")
	}
	for _, c := range cs {
		for i, l := range c.Lits {
			w := 1
			if c.Coefs != nil {
				w = c.Coefs[i]
			}
			b.WriteString(term(w, l))
		}
		op := c.Op
		if op == "" {
			op = ">="
		}
		fmt.Fprintf(&b, "%s %d ;\n", op, c.K)
	}
	return b.String()
}

func canonWCNF(n int, soft []world.Soft) string {
	sum := 1
	for _, s := range soft {
		sum += s.Weight
	}
	var b strings.Builder
	fmt.Fprintf(&b, "p wcnf %d %d %d\n", n, len(soft), sum)
	for _, s := range soft {
		w := s.Weight
		if w == 0 {
			w = sum
		}
		fmt.Fprintf(&b, "%d ", w)
		for _, l := range s.Con.Lits {
			fmt.Fprintf(&b, "%d ", l)
		}
		b.WriteString("0\n")
	}
	return b.String()
}

// rerender refreshes the text of a task after its structure changed.
func rerender(t *world.TaskSpec) {
	switch {
	case t.Kind == "cli":
	case t.Route == "dimacs":
		t.Text = canonDimacs(t.N, t.Clauses)
	case t.Route == "opb":
		t.Text = canonOPB(t.Cons, t.Cost)
	case t.Route == "wcnf":
		t.Text = canonWCNF(t.N, t.Soft)
	}
}

// candidates yields simpler variants of w, most aggressive first.
func candidates(w *world.World) []*world.World {
	var out []*world.World
	add := func(f func(c *world.World) bool) {
		c := w.Clone()
		c.Expect = nil
		if f(c) {
			out = append(out, c)
		}
	}
	// drop tasks
	if len(w.Tasks) > 1 {
		for i := range w.Tasks {
			i := i
			add(func(c *world.World) bool { c.Tasks = append(c.Tasks[:i], c.Tasks[i+1:]...); return true })
		}
	}
	for ti := range w.Tasks {
		ti := ti
		t := &w.Tasks[ti]
		// canonical text first
		if t.Text != "" && t.Kind != "cli" && t.Kind != "parse" && t.Kind != "cert" {
			add(func(c *world.World) bool {
				old := c.Tasks[ti].Text
				rerender(&c.Tasks[ti])
				return c.Tasks[ti].Text != old
			})
		}
		// halves and single removals of list-like fields
		shrinkList := func(n int, remove func(c *world.TaskSpec, lo, hi int)) {
			if n == 0 {
				return
			}
			for size := n / 2; size >= 1; size /= 2 {
				for lo := 0; lo < n; lo += size {
					lo, hi := lo, lo+size
					if hi > n {
						hi = n
					}
					add(func(c *world.World) bool { remove(&c.Tasks[ti], lo, hi); rerender(&c.Tasks[ti]); return true })
				}
				if size == 1 {
					break
				}
			}
		}
		if t.Kind != "parse" && t.Kind != "cli" {
			shrinkList(len(t.Clauses), func(c *world.TaskSpec, lo, hi int) { c.Clauses = append(c.Clauses[:lo:lo], c.Clauses[hi:]...) })
			shrinkList(len(t.Cons), func(c *world.TaskSpec, lo, hi int) { c.Cons = append(c.Cons[:lo:lo], c.Cons[hi:]...) })
			shrinkList(len(t.Soft), func(c *world.TaskSpec, lo, hi int) { c.Soft = append(c.Soft[:lo:lo], c.Soft[hi:]...) })
			shrinkList(len(t.Ops), func(c *world.TaskSpec, lo, hi int) { c.Ops = append(c.Ops[:lo:lo], c.Ops[hi:]...) })
			shrinkList(len(t.Lines), func(c *world.TaskSpec, lo, hi int) { c.Lines = append(c.Lines[:lo:lo], c.Lines[hi:]...) })
			// shorten clauses
			for ci := range t.Clauses {
				if len(t.Clauses[ci]) > 1 {
					for li := range t.Clauses[ci] {
						ci, li := ci, li
						add(func(c *world.World) bool {
							cl := c.Tasks[ti].Clauses[ci]
							c.Tasks[ti].Clauses[ci] = append(cl[:li:li], cl[li+1:]...)
							rerender(&c.Tasks[ti])
							return true
						})
					}
				}
			}
			if t.Cost != nil {
				add(func(c *world.World) bool { c.Tasks[ti].Cost = nil; rerender(&c.Tasks[ti]); return true })
			}
		}
		// environment simplifications
		if len(t.Chunks) > 0 {
			add(func(c *world.World) bool { c.Tasks[ti].Chunks = nil; c.Tasks[ti].EOFWith = false; return true })
		}
		if t.Cap != 0 {
			add(func(c *world.World) bool { c.Tasks[ti].Cap = 0; return true })
		}
		if len(t.Delays) > 0 {
			add(func(c *world.World) bool { c.Tasks[ti].Delays = nil; return true })
		}
		if t.Stop {
			add(func(c *world.World) bool { c.Tasks[ti].Stop = false; return true })
		}
		if t.AMO {
			add(func(c *world.World) bool { c.Tasks[ti].AMO = false; return true })
		}
		if t.Cert && t.Kind == "cnf" {
			add(func(c *world.World) bool { c.Tasks[ti].Cert = false; return true })
		}
		if t.Route == "dimacs" && t.Kind == "cnf" {
			add(func(c *world.World) bool { c.Tasks[ti].Route = "slicenb"; c.Tasks[ti].Text = ""; return true })
		}
		if t.Entry == "all" {
			for _, e := range entriesOf(t.Kind) {
				e := e
				add(func(c *world.World) bool { c.Tasks[ti].Entry = e; return true })
			}
		}
	}
	// knobs back to default one at a time, forced restarts dropped
	for k := range w.Knobs {
		k := k
		add(func(c *world.World) bool { delete(c.Knobs, k); return true })
	}
	if len(w.Restarts) > 0 {
		add(func(c *world.World) bool { c.Restarts = nil; return true })
		for i := range w.Restarts {
			i := i
			add(func(c *world.World) bool { c.Restarts = append(c.Restarts[:i:i], c.Restarts[i+1:]...); return true })
		}
	}
	if w.MapSeed != 0 {
		add(func(c *world.World) bool { c.MapSeed = 0; return true })
	}
	// schedule: prefer the simplest strategy that still fails
	if w.Sched.Strategy != "serial" {
		add(func(c *world.World) bool { c.Sched = world.Sched{Strategy: "serial"}; return true })
	}
	if w.Sched.TickProb > 0 {
		add(func(c *world.World) bool { c.Sched.TickProb = 0; return true })
	}
	if w.Sched.JumpProb > 0 {
		add(func(c *world.World) bool { c.Sched.JumpProb = 0; return true })
	}
	if w.Sched.LateProb > 0 {
		add(func(c *world.World) bool { c.Sched.LateProb, c.Sched.LateMax = 0, 0; return true })
		if w.Sched.LateProb < 1 {
			add(func(c *world.World) bool { c.Sched.LateProb = 1; return true })
		}
	}
	if w.Sched.Burst > 0 && w.Sched.Strategy != "serial" {
		add(func(c *world.World) bool { c.Sched.Burst = 0; return true })
		add(func(c *world.World) bool { c.Sched.Burst *= 4; return true })
	}
	return out
}

func entriesOf(kind string) []string {
	switch kind {
	case "opt":
		return []string{"optimal-nil", "minimize", "optimal-chan"}
	case "count":
		return []string{"count", "enum-nil", "enum-chan"}
	case "mus":
		return []string{"MUSDeletion", "MUSInsertion", "MUSMaxSat", "MUS"}
	}
	return nil
}

// Minimise shrinks w while the same violation signature persists.
func Minimise(t *testing.T, w *world.World, sig string, budget time.Duration) (*world.World, *Result, int) {
	start := time.Now()
	best := w
	bestRes := Run(t, best, false)
	tries := 0
	if bestRes.Signature() != sig {
		return best, bestRes, tries
	}
	for progress := true; progress && time.Since(start) < budget; {
		progress = false
		for _, c := range candidates(best) {
			if time.Since(start) > budget {
				break
			}
			tries++
			r := Run(t, c, false)
			if r.Tool == "" && r.Signature() == sig {
				best, bestRes = c, r
				progress = true
				break
			}
		}
	}
	return best, bestRes, tries
}

func minimise(t *testing.T) {
	w, err := world.Load(*fWorld)
	if err != nil {
		t.Fatalf("load: %v", err)
	}
	sig := ""
	if w.Expect != nil {
		sig = w.Expect.Signature
	}
	if sig == "" {
		sig = Run(t, w, false).Signature()
	}
	if sig == "" {
		fmt.Printf("GSIM-MIN no-violation\n")
		return
	}
	budget := 120 * time.Second
	if *fBudget > 0 {
		budget = time.Duration(*fBudget * float64(time.Second))
	}
	m, r, tries := Minimise(t, w, sig, budget)
	m.Expect = &world.Expect{Signature: r.Signature(), LogHash: r.LogHash}
	if len(r.Viol) > 0 {
		m.Expect.Detail = r.Viol[0].Detail
	}
	if err := m.Save(*fOut); err != nil {
		t.Fatalf("save: %v", err)
	}
	fmt.Printf("GSIM-MIN ok tries=%d signature=%s\n", tries, r.Signature())
}
