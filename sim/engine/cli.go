package engine

import (
	"gsim/tasks"
	"gsim/world"
)

func (e *Engine) execCLI(spec *world.TaskSpec) tasks.Outcome {
	var out tasks.Outcome
	out.Kind = "cli"
	out.Viol = append(out.Viol, tasks.Violation{Prop: "TOOL", Clause: "not-implemented", Detail: "cli"})
	return out
}
