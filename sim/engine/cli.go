package engine

import (
	"fmt"
	"os"
	"sort"
	"strconv"
	"strings"
	"syscall"

	"github.com/crillab/gophersat/gsmain"
	"github.com/crillab/gophersat/verifrt"

	"gsim/ref"
	"gsim/tasks"
	"gsim/world"
)

type simHandle struct {
	r *tasks.SimReader
}

func (h *simHandle) Read(p []byte) (int, error) { return h.r.Read(p) }
func (h *simHandle) Close() error               { return nil }

// CLIResult is what one in-process run of the command line tool produced.
type CLIResult struct {
	Stdout string
	Stderr string
	Exit   int
}

// runCLI runs gsmain.Main in the calling task under the simulated file system.
func (e *Engine) runCLI(spec *world.TaskSpec, out *tasks.Outcome) (res CLIResult) {
	files := map[string]*world.SimFile{}
	for i := range spec.Files {
		files[spec.Files[i].Path] = &spec.Files[i]
	}
	verifrt.ArgsFn = func() []string { return spec.Argv }
	verifrt.OpenFn = func(path string) (verifrt.File, error) {
		f, ok := files[path]
		if !ok {
			e.res.Faults["fs-open-enoent"]++
			return nil, &os.PathError{Op: "open", Path: path, Err: syscall.ENOENT}
		}
		switch f.OpenErr {
		case "ENOENT":
			e.res.Faults["fs-open-enoent"]++
			return nil, &os.PathError{Op: "open", Path: path, Err: syscall.ENOENT}
		case "EACCES":
			e.res.Faults["fs-open-eacces"]++
			return nil, &os.PathError{Op: "open", Path: path, Err: syscall.EACCES}
		}
		r := tasks.NewSimReader(f.Data, f.Chunks, false)
		r.FailAt = f.ReadErr
		if f.ReadErr == -1 {
			e.res.Faults["fs-read-error-first-read"]++
		} else if f.ReadErr > 0 {
			e.res.Faults["fs-read-error-mid-file"]++
		}
		if len(f.Chunks) > 0 {
			e.res.Faults["reader-chunked-delivery"]++
		}
		return &simHandle{r}, nil
	}
	defer func() {
		verifrt.ArgsFn, verifrt.OpenFn = nil, nil
		if r := recover(); r != nil {
			if x, ok := r.(exitSentinel); ok {
				if e.running != nil {
					e.running.exiting = false
				}
				res.Exit = x.code
				res.Stdout, res.Stderr = e.stdout.String(), e.stderr.String()
				return
			}
			if _, abort := r.(abortSentinel); !abort && (spec.Route == "unreadable" || spec.Route == "unknown") {
				// a Go panic ends the real process with exit status 2 and a trace on stderr: for an
				// unreadable file that still is "non-zero exit status and no answer line"
				res.Exit = 2
				res.Stdout, res.Stderr = e.stdout.String(), e.stderr.String()+fmt.Sprintf("panic: %v", r)
				e.res.Probes["cli-panic-on-bad-file"]++
				return
			}
			panic(r)
		}
	}()
	gsmain.Main()
	res.Stdout, res.Stderr = e.stdout.String(), e.stderr.String()
	return res
}

func (e *Engine) execCLI(spec *world.TaskSpec) tasks.Outcome {
	var out tasks.Outcome
	out.Kind = "cli"
	fail := func(clause, format string, args ...any) {
		out.Viol = append(out.Viol, tasks.Violation{Prop: "C19", Clause: clause, Detail: fmt.Sprintf(format, args...)})
	}
	cpMode := hasFlag(spec.Argv, "-cp")
	if cpMode && e.running != nil {
		e.running.phase = "cp"
	}
	e.res.Probes["cli-kind-"+spec.Entry]++
	for _, a := range spec.Argv[1:] {
		if strings.HasPrefix(a, "-") {
			e.res.Probes["cli-flag"+a]++
		}
	}
	if spec.Route != "ok" {
		e.res.Probes["cli-file-"+spec.Route]++
	}
	res := e.runCLI(spec, &out)
	out.Summary = fmt.Sprintf("cli:exit%d", res.Exit)
	out.Info = res.Stdout
	ctx := fmt.Sprintf("argv=%v file=%s\nstdout:\n%s\nstderr:\n%s", spec.Argv, fileDesc(spec), clip(res.Stdout, 1500), clip(res.Stderr, 400))
	judgeCLI(spec, res, fail, ctx, &out)
	if cpMode {
		for i := range out.Viol {
			out.Viol[i].Clause += "@cp"
		}
	}
	return out
}

func clip(s string, n int) string {
	if len(s) > n {
		return s[:n] + "..."
	}
	return s
}

func fileDesc(spec *world.TaskSpec) string {
	if len(spec.Files) == 0 {
		return "<none>"
	}
	f := spec.Files[0]
	return fmt.Sprintf("%s open_err=%q read_err=%d data=%q", f.Path, f.OpenErr, f.ReadErr, clip(f.Data, 700))
}

func hasFlag(argv []string, f string) bool {
	for _, a := range argv {
		if a == f {
			return true
		}
	}
	return false
}

type cliOut struct {
	status   []string // s lines (text after "s ")
	vlines   []string
	olines   []int
	other    []string // neither c/s/v/o
	comments int
}

func classify(stdout string) cliOut {
	var c cliOut
	for _, ln := range strings.Split(strings.TrimRight(stdout, "\n"), "\n") {
		switch {
		case ln == "":
		case strings.HasPrefix(ln, "c ") || ln == "c":
			c.comments++
		case strings.HasPrefix(ln, "s "):
			c.status = append(c.status, strings.TrimSpace(ln[2:]))
		case strings.HasPrefix(ln, "v ") || ln == "v":
			c.vlines = append(c.vlines, strings.TrimSpace(strings.TrimPrefix(ln, "v")))
		case strings.HasPrefix(ln, "o "):
			n, err := strconv.Atoi(strings.TrimSpace(ln[2:]))
			if err != nil {
				c.other = append(c.other, ln)
			} else {
				c.olines = append(c.olines, n)
			}
		default:
			c.other = append(c.other, ln)
		}
	}
	return c
}

// judgeCLI: the oracle of C19.
func judgeCLI(spec *world.TaskSpec, res CLIResult, fail func(string, string, ...any), ctx string, out *tasks.Outcome) {
	kind := spec.Entry
	c := classify(res.Stdout)
	bad := spec.Route == "unreadable" || spec.Route == "unknown"
	if bad {
		// Unreadable or unknown files: non-zero exit status and no answer line
		if res.Exit == 0 {
			fail("bad-file-exit-0", "an unreadable or unknown file gave exit status 0; %s", ctx)
		}
		answer := len(c.status) > 0 || len(c.vlines) > 0 || len(c.olines) > 0
		for _, ln := range c.other {
			if ln == "SATISFIABLE" || ln == "UNSATISFIABLE" {
				answer = true
			}
		}
		if answer {
			fail("bad-file-answer-line", "an unreadable or unknown file produced an answer line; %s", ctx)
		}
		return
	}
	mus := hasFlag(spec.Argv, "-mus")
	count := hasFlag(spec.Argv, "-count")
	cert := hasFlag(spec.Argv, "-certified")
	if res.Exit != 0 {
		if mus && kind == "cnf" && ref.CNFSat(spec.N, spec.Clauses) {
			return // no MUS exists for a satisfiable file: an error exit is the truthful answer
		}
		fail("exit-nonzero", "well-formed file, exit status %d; %s", res.Exit, ctx)
		return
	}
	switch {
	case kind == "bf":
		judgeCLIBF(spec, c, fail, ctx)
	case mus:
		judgeCLIMUS(spec, res.Stdout, fail, ctx)
	case count && (kind == "cnf" || kind == "opb"):
		var want int
		if kind == "cnf" {
			want = ref.CNF(spec.N, spec.Clauses).Count()
		} else {
			p := &ref.Problem{N: spec.N, Cons: spec.Cons}
			want = p.Count()
		}
		if len(c.other) == 0 {
			fail("count-missing", "no count printed; %s", ctx)
			return
		}
		got, err := strconv.Atoi(strings.TrimSpace(c.other[len(c.other)-1]))
		if err != nil || got != want {
			fail("count-wrong", "printed count %q, the file has %d models over %d variables; %s", c.other[len(c.other)-1], want, spec.N, ctx)
		}
	case kind == "cnf":
		truth := ref.CNFSat(spec.N, spec.Clauses)
		if len(c.status) != 1 {
			fail("status-lines", "%d status lines; %s", len(c.status), ctx)
			return
		}
		switch c.status[0] {
		case "SATISFIABLE":
			if !truth {
				fail("claims-sat", "printed s SATISFIABLE for an unsatisfiable file; %s", ctx)
				return
			}
			if len(c.vlines) != 1 {
				fail("v-line-missing", "s SATISFIABLE with %d v lines; %s", len(c.vlines), ctx)
				return
			}
			m, ok := parseVInts(c.vlines[0], spec.N)
			if !ok {
				fail("v-line-syntax", "cannot read v line %q over %d variables; %s", c.vlines[0], spec.N, ctx)
				return
			}
			if i := ref.CNFSatBy(spec.Clauses, m); i >= 0 {
				fail("v-line-not-a-model", "the v line falsifies clause %v of the file; %s", spec.Clauses[i], ctx)
			}
		case "UNSATISFIABLE":
			if truth {
				fail("claims-unsat", "printed s UNSATISFIABLE for a satisfiable file; %s", ctx)
				return
			}
			if cert {
				r := ref.NewRUP(spec.N, spec.Clauses)
				for i, ln := range c.other {
					cl, ok := ref.ParseCertLine(ln)
					if !ok {
						fail("cert-syntax", "certificate line %d %q is not a clause; %s", i, ln, ctx)
						return
					}
					if !r.Check(cl) {
						fail("cert-not-rup", "certificate line %d %q is not RUP; %s", i, ln, ctx)
						return
					}
				}
				if !r.Refuted() {
					fail("cert-no-refutation", "the printed certificate does not refute the file; %s", ctx)
				}
			}
		default:
			fail("no-answer", "status %q for a well-formed file; %s", c.status[0], ctx)
		}
	case kind == "opb" || kind == "wcnf":
		var hard *ref.Problem
		var costOf func(a uint32) int
		nv := spec.N
		if kind == "opb" {
			hard = &ref.Problem{N: spec.N, Cons: spec.Cons}
			costOf = func(a uint32) int {
				if spec.Cost == nil {
					return 0
				}
				return spec.Cost.Value(a)
			}
		} else {
			hard = &ref.Problem{N: spec.N}
			for _, s := range spec.Soft {
				if s.Weight == 0 {
					hard.Cons = append(hard.Cons, s.Con)
				}
			}
			costOf = func(a uint32) int {
				t := 0
				for _, s := range spec.Soft {
					if s.Weight > 0 && !s.Con.Holds(a) {
						t += s.Weight
					}
				}
				return t
			}
		}
		min, sat := 0, false
		for a := uint32(0); a < 1<<uint(hard.N); a++ {
			if hard.Holds(a) {
				if v := costOf(a); !sat || v < min {
					min = v
				}
				sat = true
			}
		}
		if len(c.status) != 1 {
			fail("status-lines", "%d status lines; %s", len(c.status), ctx)
			return
		}
		for i := 1; i < len(c.olines); i++ {
			if c.olines[i] >= c.olines[i-1] {
				fail("o-not-decreasing", "o lines %v are not strictly decreasing; %s", c.olines, ctx)
				return
			}
		}
		switch c.status[0] {
		case "UNSATISFIABLE":
			if sat {
				fail("claims-unsat", "printed s UNSATISFIABLE, the file is satisfiable (optimum %d); %s", min, ctx)
			}
		case "OPTIMUM FOUND", "SATISFIABLE":
			if !sat {
				fail("claims-sat", "printed s %s for an unsatisfiable file; %s", c.status[0], ctx)
				return
			}
			if len(c.olines) == 0 || c.olines[len(c.olines)-1] != min {
				fail("o-last-not-optimum", "o lines %v, the true optimum is %d; %s", c.olines, min, ctx)
			}
			if len(c.vlines) != 1 {
				fail("v-line-missing", "%d v lines; %s", len(c.vlines), ctx)
				return
			}
			m, ok := parseVX(c.vlines[0], nv)
			if !ok {
				fail("v-line-syntax", "cannot read v line %q over %d variables; %s", c.vlines[0], nv, ctx)
				return
			}
			a := ref.Bools(m)
			if j := hard.FirstViolated(a); j >= 0 {
				fail("v-line-not-a-model", "the v line violates %s; %s", hard.Cons[j], ctx)
				return
			}
			if costOf(a) != min {
				fail("v-line-not-optimal", "the v line costs %d, the optimum is %d; %s", costOf(a), min, ctx)
			}
		default:
			fail("no-answer", "status %q for a well-formed file; %s", c.status[0], ctx)
		}
	}
}

// parseVInts reads "1 -2 3 0" into a model over n variables (each variable exactly once).
func parseVInts(s string, n int) ([]bool, bool) {
	f := strings.Fields(s)
	if len(f) == 0 || f[len(f)-1] != "0" {
		return nil, false
	}
	f = f[:len(f)-1]
	if len(f) != n {
		return nil, false
	}
	m := make([]bool, n)
	seen := make([]bool, n)
	for _, t := range f {
		v, err := strconv.Atoi(t)
		if err != nil || v == 0 {
			return nil, false
		}
		i := v
		if i < 0 {
			i = -i
		}
		if i > n || seen[i-1] {
			return nil, false
		}
		seen[i-1] = true
		m[i-1] = v > 0
	}
	return m, true
}

// parseVX reads "x1 -x2 x3" into a model over n variables.
func parseVX(s string, n int) ([]bool, bool) {
	f := strings.Fields(s)
	if len(f) != n {
		return nil, false
	}
	m := make([]bool, n)
	seen := make([]bool, n)
	for _, t := range f {
		neg := strings.HasPrefix(t, "-")
		t = strings.TrimPrefix(t, "-")
		if !strings.HasPrefix(t, "x") {
			return nil, false
		}
		i, err := strconv.Atoi(t[1:])
		if err != nil || i < 1 || i > n || seen[i-1] {
			return nil, false
		}
		seen[i-1] = true
		m[i-1] = !neg
	}
	return m, true
}

func judgeCLIBF(spec *world.TaskSpec, c cliOut, fail func(string, string, ...any), ctx string) {
	f := spec.Formula
	truth := f.Satisfiable()
	verdict := ""
	model := map[string]bool{}
	for _, ln := range c.other {
		switch {
		case ln == "SATISFIABLE" || ln == "UNSATISFIABLE":
			if verdict != "" {
				fail("status-lines", "several verdict lines; %s", ctx)
				return
			}
			verdict = ln
		case strings.Contains(ln, ": "):
			kv := strings.SplitN(ln, ": ", 2)
			b, err := strconv.ParseBool(kv[1])
			if err != nil {
				fail("binding-syntax", "cannot read binding %q; %s", ln, ctx)
				return
			}
			model[kv[0]] = b
		}
	}
	switch verdict {
	case "SATISFIABLE":
		if !truth {
			fail("claims-sat", "printed SATISFIABLE for an unsatisfiable formula; %s", ctx)
			return
		}
		if !f.Eval(model) {
			var ks []string
			for k, v := range model {
				ks = append(ks, fmt.Sprintf("%s=%v", k, v))
			}
			sort.Strings(ks)
			fail("bindings-not-a-model", "the printed bindings %v do not satisfy the formula; %s", ks, ctx)
		}
	case "UNSATISFIABLE":
		if truth {
			fail("claims-unsat", "printed UNSATISFIABLE for a satisfiable formula; %s", ctx)
		}
	default:
		fail("no-answer", "no verdict line; %s", ctx)
	}
}

func judgeCLIMUS(spec *world.TaskSpec, stdout string, fail func(string, string, ...any), ctx string) {
	i := strings.Index(stdout, "p cnf")
	if i < 0 {
		fail("mus-missing", "no DIMACS problem printed; %s", ctx)
		return
	}
	n, cl, err := ref.ReadDIMACS(stdout[i:])
	if err != nil {
		fail("mus-syntax", "the printed MUS is not well-formed DIMACS: %v; %s", err, ctx)
		return
	}
	if n != spec.N {
		fail("mus-nbvars", "the printed MUS declares %d variables, the file %d; %s", n, spec.N, ctx)
	}
	if ref.CNFSat(spec.N, spec.Clauses) {
		fail("mus-on-sat-file", "a MUS was printed for a satisfiable file; %s", ctx)
		return
	}
	if msg := ref.JudgeMUS(spec.N, spec.Clauses, cl); msg != "" {
		fail("mus-"+strings.SplitN(strings.ReplaceAll(msg, " ", "-"), ":", 2)[0], "%s; printed %v; %s", msg, cl, ctx)
	}
}
