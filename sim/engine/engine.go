// Package engine is Engine A of DESIGN.md: it runs one world at a time inside a
// testing/synctest bubble, with real goroutines released one at a time by a
// scheduler whose every decision derives from the world value.
package engine

import (
	"bytes"
	"encoding/json"
	"fmt"
	"hash/fnv"
	"math"
	"regexp"
	"runtime/debug"
	"sort"
	"strings"
	"testing"
	"testing/synctest"
	"time"

	"github.com/crillab/gophersat/solver"
	"github.com/crillab/gophersat/verifrt"

	"gsim/tasks"
	"gsim/world"
)

const (
	stSpawned = iota
	stParked
	stRunning
	stInOp
	stDone
)

type abortSentinel struct{ reason string }

type exitSentinel struct{ code int }

type task struct {
	id       int
	name     string
	lib      bool // started by library code
	top      bool
	topIdx   int
	state    int
	site     int32
	kind     int
	wake     chan struct{}
	wakeAt   time.Duration
	steps    int64
	budget   int64
	aborting bool
	aborted  string
	panicVal string
	panicStk string
	exitCode int
	hasExit  bool
	restarts int
	mapCalls map[int32]int
	prio     int
	phase    string
	selects  int
	snooze   int64 // not schedulable before this decision number (unless nothing else is)
	timer    bool  // function armed with time.AfterFunc: not a goroutine until the timer fires
	exiting  bool  // the simulated os.Exit is unwinding this task
	inOp     bool  // between Pre and Post of an instrumented operation (operand evaluation may yield in between)
}

// Result is what one world run reports.
type Result struct {
	Viol      []tasks.Violation `json:"viol,omitempty"`
	Outcomes  []*tasks.Outcome  `json:"outcomes,omitempty"`
	Solo      []*tasks.Outcome  `json:"solo,omitempty"`
	Decisions int64             `json:"decisions"`
	Steps     int64             `json:"steps"`
	Switches  int64             `json:"switches"`
	SimNs     int64             `json:"sim_ns"`
	LogHash   string            `json:"log_hash"`
	Probes    map[string]int    `json:"probes,omitempty"`
	Faults    map[string]int    `json:"faults,omitempty"`
	Tool      string            `json:"tool,omitempty"`
	Events    []string          `json:"events,omitempty"`
	SwitchSig uint64            `json:"switch_sig"`
	Diverge   int               `json:"diverge,omitempty"`
	Stdout    string            `json:"-"`
}

// Signature identifies the violation class of a result ("" = none).
func (r *Result) Signature() string {
	if len(r.Viol) == 0 {
		return ""
	}
	v := r.Viol[0]
	return v.Prop + "/" + v.Clause
}

type Engine struct {
	w         *world.World
	tasks     []*task
	running   *task
	burst     int64
	burstOn   bool
	idleJumps int
	live      []*task // tasks that are not finished (the scheduler scans these; e.tasks keeps all for the verdicts)
	rng       *world.Rng
	res       *Result
	h         interface{ Write([]byte) (int, error) }
	hsum      func() uint64
	keepLog   bool
	t0        time.Time
	stdout    bytes.Buffer
	stderr    bytes.Buffer
	tap       func(kind string, a, b any)
	restarts  map[int]bool
	outs      []*tasks.Outcome
	defBudget int64
	scale     int64
	lastRun   int
	siteHit   map[int32]bool
	pctChange map[int64]bool
	files     map[string]world.SimFile
}

var cur *Engine

const maxFineDecisions = 200_000

var SiteHits = map[int32]int64{} // cumulative over the process (coverage)

func install() {
	verifrt.YieldHook = func(site int32) {
		e := cur
		if e == nil {
			return
		}
		t := e.running
		if t == nil {
			return
		}
		SiteHits[site]++
		t.steps++
		if t.steps > t.budget && !t.aborting {
			t.aborting = true
			panic(abortSentinel{fmt.Sprintf("step budget %d exceeded at\n%s", t.budget, trimStack(string(debug.Stack())))})
		}
		if e.burstOn && !t.aborting {
			e.burst--
			if e.burst <= 0 {
				e.park(t, site, 0)
			}
		}
	}
	verifrt.PreHook = func(site int32, kind int) any {
		e := cur
		if e == nil {
			return nil
		}
		t := e.running
		if t == nil || t.aborting {
			return nil
		}
		SiteHits[site]++
		e.park(t, site, kind)
		t.state = stInOp
		t.inOp = true
		t.site = site
		t.kind = kind
		return t
	}
	verifrt.PostHook = func(h any, site int32) {
		t, ok := h.(*task)
		if !ok || t == nil || t.aborting {
			return
		}
		// may run concurrently with the running task (woken partner): touch only t
		t.inOp = false
		t.state = stParked
		t.site = site
		t.kind = -t.kind
		<-t.wake
		if t.aborting {
			panic(abortSentinel{"killed"})
		}
	}
	verifrt.SpawnHook = func(site int32) any {
		e := cur
		if e == nil || e.running == nil {
			return nil
		}
		SiteHits[site]++
		if rt := e.running; len(e.tasks) > int(maxLibTasks*e.scale) && !rt.aborting {
			rt.aborting = true
			panic(abortSentinel{fmt.Sprintf("goroutine budget exceeded: the world started more than %d goroutines\n%s", int(maxLibTasks*e.scale), trimStack(string(debug.Stack())))})
		}
		t := e.newTask(fmt.Sprintf("lib@%d", site), true)
		t.site = site
		t.phase = e.running.phase
		if p := e.w.Sched.LateProb; p > 0 && e.w.Sched.LateMax > 0 && e.rng != nil && e.rng.Float() < p {
			// a freshly started goroutine may not get a processor for a while
			t.snooze = e.res.Decisions + 1 + int64(e.rng.Intn(e.w.Sched.LateMax))
			e.res.Faults["goroutine-started-late"]++
		}
		return t
	}
	verifrt.TimerHook = func(site int32) any {
		e := cur
		if e == nil || e.running == nil {
			return nil
		}
		SiteHits[site]++
		t := e.newTask(fmt.Sprintf("timer@%d", site), true)
		t.site = site
		t.phase = e.running.phase
		t.timer = true
		return t
	}
	verifrt.StartHook = func(h any) {
		t, ok := h.(*task)
		if !ok || t == nil {
			return
		}
		t.state = stParked
		t.kind = verifrt.KGo
		<-t.wake
		if t.aborting {
			panic(abortSentinel{"killed"})
		}
	}
	verifrt.ExitHook = func(h any, r any) {
		t, ok := h.(*task)
		if !ok || t == nil {
			if r != nil {
				panic(r)
			}
			return
		}
		cur.exit(t, r)
	}
	verifrt.PermHook = func(site int32, n int) []int {
		e := cur
		if e == nil {
			return nil
		}
		SiteHits[site]++
		p := make([]int, n)
		for i := range p {
			p[i] = i
		}
		if e.w.MapSeed == 0 || n < 2 {
			return p
		}
		calls := 0
		if t := e.running; t != nil {
			if t.mapCalls == nil {
				t.mapCalls = map[int32]int{}
			}
			calls = t.mapCalls[site]
			t.mapCalls[site]++
		}
		r := world.NewRng(world.Mix(world.Mix(e.w.MapSeed, uint64(site)), uint64(calls)))
		e.res.Faults["map-permutation"]++
		return r.Perm(n)
	}
	verifrt.SelectHook = func(site int32, n int) []int {
		e := cur
		if e == nil || e.running == nil {
			return nil
		}
		t := e.running
		t.selects++
		// every case is polled, in an order that is a pure function of the world
		r := world.NewRng(world.Mix(world.Mix(e.w.Sched.Seed^0x5e1ec7, uint64(t.id)), uint64(t.selects)))
		e.res.Faults["select-order-chosen"]++
		return r.Perm(n)
	}
	verifrt.BuggifyHook = func(name string) bool {
		e := cur
		if e == nil || name != "restart" || len(e.restarts) == 0 {
			return false
		}
		t := e.running
		if t == nil {
			return false
		}
		t.restarts++
		if e.restarts[t.restarts] {
			e.res.Faults["forced-restart"]++
			return true
		}
		return false
	}
	verifrt.TapHook = func(kind string, a, b any) {
		if e := cur; e != nil && e.tap != nil {
			e.tap(kind, a, b)
		}
	}
	verifrt.ExitFn = func(code int) {
		if e := cur; e != nil && e.running != nil {
			e.running.exiting = true // deferred calls of package main are skipped from here on, as under a real os.Exit
		}
		panic(exitSentinel{code})
	}
	verifrt.ExitingHook = func() bool {
		e := cur
		return e != nil && e.running != nil && e.running.exiting
	}
}

func (e *Engine) newTask(name string, lib bool) *task {
	t := &task{id: len(e.tasks), name: name, lib: lib, state: stSpawned, wake: make(chan struct{}), budget: e.defBudget}
	if e.rng != nil {
		t.prio = e.rng.Intn(1 << 20)
	}
	e.tasks = append(e.tasks, t)
	e.live = append(e.live, t)
	return t
}

// maxLibTasks bounds the goroutines the code under test may start in one world (times the budget
// scale): a loop that starts one per iteration is a non-terminating world like any other.
const maxLibTasks = 5_000

func (e *Engine) park(t *task, site int32, kind int) {
	t.state = stParked
	t.site = site
	t.kind = kind
	<-t.wake
	if t.aborting {
		panic(abortSentinel{"killed"})
	}
}

var digits = regexp.MustCompile(`[0-9]+`)

func (e *Engine) exit(t *task, r any) {
	t.state = stDone
	if r == nil {
		return
	}
	switch v := r.(type) {
	case abortSentinel:
		t.aborted = v.reason
	case exitSentinel:
		t.hasExit = true
		t.exitCode = v.code
	default:
		t.panicVal = fmt.Sprint(r)
		t.panicStk = string(debug.Stack())
	}
}

// spawnHarness starts a harness goroutine as a task.
func (e *Engine) spawnHarness(name string, top bool, idx int, f func()) *task {
	t := e.newTask(name, false)
	t.top = top
	t.topIdx = idx
	go func() {
		defer func() { e.exit(t, recover()) }()
		t.state = stParked
		t.kind = verifrt.KGo
		<-t.wake
		if t.aborting {
			panic(abortSentinel{"killed"})
		}
		f()
	}()
	return t
}

func (e *Engine) logf(format string, args ...any) {
	s := fmt.Sprintf(format, args...)
	e.h.Write([]byte(s))
	e.h.Write([]byte{'\n'})
	if e.keepLog {
		e.res.Events = append(e.res.Events, s)
	}
}

// ---- Env implementation ------------------------------------------------------

type env struct{ e *Engine }

func (v env) Go(name string, f func()) { v.e.spawnHarness(name, false, -1, f) }
func (v env) Pre() any {
	e := v.e
	t := e.running
	if t == nil || t.aborting {
		return nil
	}
	e.park(t, -1, verifrt.KSend)
	t.state = stInOp
	t.inOp = true
	t.site = -1
	return t
}
func (v env) Post(h any) {
	t, ok := h.(*task)
	if !ok || t == nil || t.aborting {
		return
	}
	t.inOp = false
	t.state = stParked
	t.site = -2
	<-t.wake
	if t.aborting {
		panic(abortSentinel{"killed"})
	}
}
func (v env) Sync() {
	e := v.e
	if t := e.running; t != nil && !t.aborting {
		e.park(t, -3, 0)
	}
}
func (v env) Sleep(ns int64) {
	e := v.e
	t := e.running
	if t == nil || t.aborting {
		return
	}
	t.wakeAt = time.Since(e.t0) + time.Duration(ns)
	e.res.Faults["consumer-delay"]++
	e.park(t, -4, 0)
}
func (v env) Snooze(n int) {
	e := v.e
	t := e.running
	if t == nil || t.aborting {
		return
	}
	t.snooze = e.res.Decisions + int64(n)
	e.res.Faults["consumer-snooze"]++
	e.park(t, -5, 0)
}
func (v env) Seq() int64 { return v.e.res.Decisions }
func (v env) Event(kind, detail string) {
	v.e.logf("ev %d %s %s", v.e.res.Decisions, kind, detail)
}
func (v env) Probe(name string)               { v.e.res.Probes[name]++ }
func (v env) SetTap(f func(string, any, any)) { v.e.tap = f }
func (v env) Stdout() string                  { return v.e.stdout.String() }
func (v env) Instrumented() bool              { return true }
func (v env) Phase(name string) {
	if t := v.e.running; t != nil {
		t.phase = name
	}
}

// ---- scheduler ------------------------------------------------------------------

func (e *Engine) chooseBurst() int64 {
	b := e.w.Sched.Burst
	if e.res.Decisions > maxFineDecisions {
		// bound the cost of one world: after this many decisions hot yields stop being
		// scheduling points (blocking operations still are); deterministic, so it replays
		b = 0
	}
	if b <= 0 {
		e.burstOn = false
		return 0
	}
	e.burstOn = true
	// geometric-ish around the mean, with occasional long runs
	u := e.rng.Float()
	if u < 1e-12 {
		u = 1e-12
	}
	n := int64(-math.Log(u)*float64(b)) + 1
	return n
}

func (e *Engine) choose(cand []*task) *task {
	s := &e.w.Sched
	d := e.res.Decisions
	if int(d) < len(s.Choices) && s.Choices[d] >= 0 {
		for _, t := range cand {
			if int32(t.id) == s.Choices[d] {
				return t
			}
		}
	}
	switch s.Strategy {
	case "", "serial":
		return cand[0]
	case "pct":
		if e.pctChange[d] {
			if e.lastRun >= 0 && e.lastRun < len(e.tasks) {
				e.tasks[e.lastRun].prio = -int(d)
			}
		}
		best := cand[0]
		for _, t := range cand[1:] {
			if t.prio > best.prio {
				best = t
			}
		}
		return best
	case "sticky":
		if e.rng.Float() < 0.8 {
			for _, t := range cand {
				if t.id == e.lastRun {
					return t
				}
			}
		}
		return cand[e.rng.Intn(len(cand))]
	default: // random
		return cand[e.rng.Intn(len(cand))]
	}
}

// runPhase schedules until nothing is runnable and nothing sleeps.
func (e *Engine) runPhase() {
	e.idleJumps = 0 // at most ten per phase: a ticker that nobody stops would otherwise keep the phase alive for ever
	for {
		synctest.Wait()
		if prev := e.running; prev != nil && prev.state == stRunning {
			// the task that held the token neither parked, nor entered an instrumented operation, nor
			// finished, yet everything is quiescent: it is blocked somewhere gsinstr put no hook. The
			// one-task-at-a-time invariant is about to break, so nothing from this world is believed.
			e.res.Tool = fmt.Sprintf("task %s is blocked at an operation that is not instrumented (last known site: %s)", prev.name, siteName(prev.site))
			return
		}
		e.running = nil
		now := time.Since(e.t0)
		var cand, snoozers []*task
		var forced *task
		var minWake time.Duration = -1
		// only tasks that are not finished are looked at (a world may start very many goroutines)
		k := 0
		for _, t := range e.live {
			if t.state != stDone {
				e.live[k] = t
				k++
			}
		}
		for i := k; i < len(e.live); i++ {
			e.live[i] = nil
		}
		e.live = e.live[:k]
		for _, t := range e.live {
			if t.state != stParked {
				continue
			}
			if t.wakeAt > now {
				if minWake < 0 || t.wakeAt < minWake {
					minWake = t.wakeAt
				}
				continue
			}
			if t.kind == verifrt.KSelect && forced == nil {
				forced = t // about to enter a select: push it in so that two ready cases never coexist
			}
			if t.snooze > e.res.Decisions {
				snoozers = append(snoozers, t)
				continue
			}
			cand = append(cand, t)
		}
		if len(cand) == 0 && len(snoozers) > 0 {
			cand = snoozers // nothing else can run: lateness is over
		}
		if len(cand) == 0 {
			if minWake >= 0 {
				time.Sleep(minWake - now)
				e.res.Faults["clock-jump"]++
				continue
			}
			// nothing can run and no task sleeps: timers the code under test armed itself (time.AfterFunc,
			// tickers, time.After) may still be pending inside the bubble. Let an hour of simulated time
			// pass, at most ten times per phase, before calling the phase finished.
			if e.idleJumps < 10 && e.anyUnfinished() {
				e.idleJumps++
				time.Sleep(time.Hour)
				e.res.Faults["clock-jump-idle-1h"]++
				continue
			}
			return
		}
		var t *task
		if forced != nil {
			t = forced
		} else {
			if p := e.w.Sched.JumpProb; p > 0 && minWake >= 0 && e.rng.Float() < p {
				// a sleeper wakes in the middle of the others' work (otherwise simulated time only moves
				// at quiescence, and a delayed consumer would always be slower than any computation)
				time.Sleep(minWake - now)
				e.res.Faults["clock-jump-while-runnable"]++
				continue
			}
			if p := e.w.Sched.TickProb; p > 0 && e.rng.Float() < p {
				time.Sleep(3 * time.Second)
				e.res.Faults["clock-advance-3s"]++
				continue
			}
			t = e.choose(cand)
		}
		e.res.Decisions++
		if t.id != e.lastRun {
			e.res.Switches++
			e.res.SwitchSig = e.res.SwitchSig*1099511628211 ^ uint64(t.id)<<20 ^ uint64(uint32(t.site))
		}
		e.lastRun = t.id
		e.logf("d %d t%d s%d k%d", e.res.Decisions, t.id, t.site, t.kind)
		e.burst = e.chooseBurst()
		t.state = stRunning
		if t.inOp {
			t.state = stInOp // yielded while evaluating the operands of an instrumented operation
		}
		t.wakeAt = 0
		e.running = t
		t.wake <- struct{}{}
	}
}

func (e *Engine) anyUnfinished() bool {
	for _, t := range e.live {
		if t.state != stDone {
			return true
		}
	}
	return false
}

// kill wakes every parked task with the abort flag set so that it unwinds.
func (e *Engine) kill() {
	for i := 0; i < 1000; i++ {
		synctest.Wait()
		e.running = nil
		var t *task
		for _, x := range e.tasks {
			if x.state == stParked {
				t = x
				break
			}
		}
		if t == nil {
			return
		}
		t.aborting = true
		t.state = stRunning
		e.running = t
		t.wake <- struct{}{}
	}
}

var siteName func(int32) string = func(s int32) string { return fmt.Sprintf("site%d", s) }

func (e *Engine) describe(t *task) string {
	st := []string{"spawned", "parked", "running", "blocked-in-op", "done"}[t.state]
	return fmt.Sprintf("%s[%s at %s]", t.name, st, siteName(t.site))
}

func (e *Engine) viol(prop, clause, format string, args ...any) {
	e.res.Viol = append(e.res.Viol, tasks.Violation{Prop: prop, Clause: clause, Detail: fmt.Sprintf(format, args...)})
}

func panicKey(msg, stk string) string {
	m := digits.ReplaceAllString(msg, "N")
	if len(m) > 60 {
		m = m[:60]
	}
	fn := ""
	for _, ln := range strings.Split(stk, "\n") {
		if strings.HasPrefix(ln, "github.com/crillab/gophersat/") && !strings.Contains(ln, "/verifrt.") {
			fn = ln[len("github.com/crillab/gophersat/"):]
			if i := strings.LastIndex(fn, "("); i > 0 {
				fn = fn[:i]
			}
			break
		}
	}
	return m + " in " + fn
}

// phaseVerdict inspects the tasks after a phase and reports engine-level failures.
func (e *Engine) phaseVerdict(prop string, record bool) (fail string) {
	allTopDone := true
	for _, t := range e.tasks {
		if t.top && t.state != stDone {
			allTopDone = false
		}
	}
	var stuck []string
	for _, t := range e.tasks {
		switch {
		case t.panicVal != "":
			fail = "panic"
			if record {
				e.viol(prop, "panic"+at(t.phase)+":"+panicKey(t.panicVal, t.panicStk), "task %s panicked: %s\n%s", t.name, t.panicVal, trimStack(t.panicStk))
			}
		case t.aborted != "":
			fail = "nontermination"
			if record {
				e.viol(prop, "nontermination"+at(t.phase), "task %s: %s (after %d steps)", t.name, t.aborted, t.steps)
			}
		case t.timer && t.state == stSpawned:
			// a timer that was stopped, or that never came due: no goroutine exists
		case t.state != stDone:
			stuck = append(stuck, e.describe(t))
		}
	}
	if len(stuck) > 0 {
		if allTopDone {
			// every caller returned; goroutines the library started are blocked for ever. Only C20 states
			// "neither a deadlock ... occurs" about the library's own goroutines; elsewhere it is a diagnostic.
			if prop != "C20" {
				e.res.Probes["goroutine-left-blocked-not-judged"]++
			} else {
				if fail == "" {
					fail = "leak"
				}
				if record {
					e.viol(prop, "goroutine-leak", "every caller returned but goroutines started by the library are blocked forever: %s", strings.Join(stuck, ", "))
				}
			}
		} else {
			if fail == "" {
				fail = "deadlock"
			}
			if record {
				e.viol(prop, "deadlock", "no task can run and these are not finished: %s", strings.Join(stuck, ", "))
			}
		}
	}
	return fail
}

func at(phase string) string {
	if phase == "" {
		return ""
	}
	return "@" + phase
}

func trimStack(s string) string {
	lines := strings.Split(s, "\n")
	var keep []string
	for i := 0; i < len(lines); i++ {
		if strings.Contains(lines[i], "gophersat/") || strings.Contains(lines[i], "gsim/") {
			keep = append(keep, strings.TrimSpace(lines[i]))
		}
		if len(keep) >= 14 {
			break
		}
	}
	return strings.Join(keep, "\n")
}

// shippedKnobs holds the values the tree under test gives its tuning constants, read once before any
// world touches them: the engine never carries a copy of an implementation constant.
var shippedKnobs = func() map[string]int {
	m := map[string]int{}
	for _, n := range []string{"initNbMaxClauses", "incrNbMaxClauses", "incrPostponeNbMax", "lubyConstant"} {
		if v, ok := solver.VerifGetKnob(n); ok {
			m[n] = v
		}
	}
	return m
}()

func setKnobs(k map[string]int) {
	for name, d := range shippedKnobs {
		v, ok := k[name]
		if !ok {
			v = d
		}
		solver.VerifSetKnob(name, v)
	}
}

// KnobsAvailable reports which knobs the instrumented tree exposes.
func KnobsAvailable() []string {
	var out []string
	for _, n := range []string{"initNbMaxClauses", "incrNbMaxClauses", "incrPostponeNbMax", "lubyConstant"} {
		if _, ok := solver.VerifGetKnob(n); ok {
			out = append(out, n)
		}
	}
	return out
}

// Run executes one world. keepLog keeps the full event log in the result. A run that ends in
// "step budget exceeded" is executed again with a budget 40 times larger before it is believed:
// bounded liveness must not depend on a tight constant (enumeration worlds legitimately need work
// proportional to their number of models). Both executions are pure functions of the world.
func Run(t *testing.T, w *world.World, keepLog bool) *Result {
	res := runOnce(t, w, keepLog, 1)
	if res.Tool == "" && strings.Contains(res.Signature(), "nontermination") {
		res2 := runOnce(t, w, keepLog, 40)
		res2.Probes["budget-exceeded-then-rerun"]++
		return res2
	}
	return res
}

func runOnce(t *testing.T, w *world.World, keepLog bool, scale int64) *Result {
	res := &Result{Probes: map[string]int{}, Faults: map[string]int{}}
	h := fnv.New64a()
	e := &Engine{w: w, res: res, h: h, hsum: h.Sum64, keepLog: keepLog, defBudget: 5_000_000 * scale, lastRun: -1, scale: scale}
	e.restarts = map[int]bool{}
	for _, r := range w.Restarts {
		e.restarts[r] = true
	}
	e.files = map[string]world.SimFile{}
	resetGlobals() // package-level variables of the code under test start every world from their initial values
	setKnobs(w.Knobs)
	defer setKnobs(nil)
	for k := range w.Knobs {
		res.Faults["knob:"+k]++
	}
	install()
	verifrt.StdoutW = &e.stdout
	verifrt.StderrW = &e.stderr
	verifrt.ResetSync()
	cur = e
	defer func() { cur = nil }()
	func() {
		defer func() {
			if r := recover(); r != nil {
				msg := fmt.Sprint(r)
				if !strings.Contains(msg, "deadlock: main bubble goroutine has exited") {
					res.Tool = "engine panic: " + msg + "\n" + string(debug.Stack())
				}
			}
		}()
		synctest.Test(t, func(t *testing.T) {
			e.t0 = time.Now()
			// the execution's identity includes its workload: hash the world value first
			wc := *w
			wc.Expect = nil
			if js, err := json.Marshal(&wc); err == nil {
				hw := fnv.New64a()
				hw.Write(js)
				e.logf("world %016x", hw.Sum64())
			}
			e.bubble()
			res.SimNs = int64(time.Since(e.t0))
		})
	}()
	res.LogHash = fmt.Sprintf("%016x", e.hsum())
	res.Stdout = e.stdout.String()
	return res
}

func (e *Engine) bubble() {
	w := e.w
	prop := w.Prop
	solo := prop == "C16"
	var soloOut []*tasks.Outcome
	var soloFail []string
	var soloSteps []int64
	if solo {
		for i := range w.Tasks {
			// every phase starts like a fresh process: a solo run must not warm package-level state
			// (lazily built tables, pools) for the interleaved run it is the reference of
			resetGlobals()
			verifrt.ResetSync()
			e.tasks, e.live = nil, nil
			e.rng = world.NewRng(1)
			e.burstOn = false
			e.outs = make([]*tasks.Outcome, len(w.Tasks))
			e.defBudget = 5_000_000 * e.scale
			e.startTop(i)
			save := w.Sched
			w.Sched = world.Sched{Strategy: "serial"}
			e.runPhase()
			w.Sched = save
			if e.res.Tool != "" {
				return
			}
			soloFail = append(soloFail, e.phaseVerdict(prop, false))
			soloOut = append(soloOut, e.outs[i])
			var st int64
			for _, t := range e.tasks {
				st += t.steps
			}
			soloSteps = append(soloSteps, st)
			e.kill()
		}
		e.res.Solo = soloOut
		e.logf("solo done")
	}
	// main phase
	if solo {
		resetGlobals()
		verifrt.ResetSync()
	}
	e.tasks, e.live = nil, nil
	e.lastRun = -1
	e.rng = world.NewRng(w.Sched.Seed)
	e.outs = make([]*tasks.Outcome, len(w.Tasks))
	e.defBudget = 5_000_000 * e.scale
	e.pctChange = map[int64]bool{}
	if w.Sched.Strategy == "pct" {
		// change points spread over a horizon drawn per world: worlds differ by orders of magnitude in length
		horizon := []int{10, 30, 100, 300, 1000, 3000}[e.rng.Intn(6)]
		for i := 0; i < w.Sched.PCTDepth; i++ {
			e.pctChange[int64(e.rng.Intn(horizon))] = true
		}
	}
	for i := range w.Tasks {
		t := e.startTop(i)
		if solo {
			t.budget = (50*soloSteps[i] + 10_000) * e.scale
		}
	}
	e.runPhase()
	if e.res.Tool != "" {
		return
	}
	for _, t := range e.tasks {
		e.res.Steps += t.steps
	}
	e.res.Outcomes = e.outs
	if solo {
		e.judgeC16(soloOut, soloFail)
	} else {
		e.phaseVerdict(prop, true)
		for i, o := range e.outs {
			if o == nil {
				continue
			}
			_ = i
			for _, v := range o.Viol {
				e.res.Viol = append(e.res.Viol, v)
			}
			e.res.Diverge += o.Diverge
		}
	}
	for _, o := range e.outs {
		if o != nil {
			for k, n := range o.Probes {
				e.res.Probes[k] += n
			}
			for k, n := range o.Faults {
				e.res.Faults[k] += n
			}
		}
	}
	for _, t := range e.tasks {
		if t.timer && t.state != stSpawned {
			e.res.Faults["timer-function-ran"]++
		}
	}
	for k, n := range verifrt.SyncWaits {
		e.res.Faults["sync-"+k] += n
	}
	// deterministic summary into the log hash
	for i, o := range e.outs {
		if o != nil {
			e.logf("out %d %s viol=%d", i, o.Summary, len(o.Viol))
		} else {
			e.logf("out %d none", i)
		}
	}
	sort.SliceStable(e.res.Viol, func(i, j int) bool { return violRank(e.res.Viol[i]) < violRank(e.res.Viol[j]) })
	e.kill()
}

func violRank(v tasks.Violation) int {
	if v.Prop == "TOOL" {
		return 0
	}
	if strings.HasPrefix(v.Clause, "panic") {
		return 1
	}
	return 2
}

func (e *Engine) startTop(i int) *task {
	spec := &e.w.Tasks[i]
	return e.spawnHarness(fmt.Sprintf("T%d:%s", i, spec.Kind), true, i, func() {
		var out tasks.Outcome
		if spec.Kind == "cli" {
			out = e.execCLI(spec)
		} else {
			out = tasks.Exec(env{e}, spec)
		}
		e.outs[i] = &out
	})
}

// judgeC16: under the explored interleaving each task must behave as it does alone.
func (e *Engine) judgeC16(solo []*tasks.Outcome, soloFail []string) {
	// engine-level failures of the interleaved run
	interFail := e.phaseVerdict("C16", false)
	anySoloBad := false
	for i := range solo {
		if soloFail[i] != "" || solo[i] == nil || hasReal(solo[i].Viol) {
			anySoloBad = true
		}
	}
	if anySoloBad {
		// a task that already fails alone is not an interference question; it is counted, not judged here
		e.res.Probes["c16-solo-already-failing"]++
		return
	}
	if interFail != "" {
		e.phaseVerdict("C16", true)
		return
	}
	for i, o := range e.outs {
		if o == nil {
			e.viol("C16", "no-outcome", "task %d produced no outcome when interleaved", i)
			continue
		}
		if o.Summary != solo[i].Summary {
			e.viol("C16", "result-differs-from-solo", "task %d (%s) returned %q alone and %q when interleaved with %d other task(s)", i, e.w.Tasks[i].Kind, solo[i].Summary, o.Summary, len(e.outs)-1)
		}
		for _, v := range o.Viol {
			if v.Prop == "TOOL" {
				e.res.Viol = append(e.res.Viol, v)
				continue
			}
			e.viol("C16", "invalid-when-interleaved:"+v.Clause, "task %d (%s) is correct alone but when interleaved: [%s/%s] %s", i, e.w.Tasks[i].Kind, v.Prop, v.Clause, v.Detail)
		}
	}
}

func hasReal(vs []tasks.Violation) bool {
	return len(vs) > 0
}
