package engine

import (
	"encoding/binary"
	"encoding/json"
	"flag"
	"fmt"
	"os"
	"path/filepath"
	"sort"
	"strconv"
	"testing"
	"time"

	"gsim/gen"
	"gsim/world"
)

var (
	fMode   = flag.String("gsim.mode", "", "search | replay | min | det")
	fProp   = flag.String("gsim.prop", "", "property id")
	fSeed   = flag.Uint64("gsim.seed", 1, "base seed")
	fFrom   = flag.Int("gsim.from", 0, "first world index")
	fTo     = flag.Int("gsim.to", 0, "one past the last world index")
	fStride = flag.Int("gsim.stride", 1, "index stride")
	fTier   = flag.String("gsim.tier", "quick", "quick | thorough")
	fOut    = flag.String("gsim.out", "", "output directory / file")
	fWorld  = flag.String("gsim.world", "", "world file (replay, min)")
	fSites  = flag.String("gsim.sites", "", "sites.json written by gsinstr")
	fBudget = flag.Float64("gsim.budget", 0, "wall-clock cap in seconds (0 = none)")
	fWorker = flag.Int("gsim.worker", 0, "worker number (file names)")
)

type siteRec struct {
	ID   int    `json:"id"`
	Kind string `json:"kind"`
	File string `json:"file"`
	Line int    `json:"line"`
	Func string `json:"func"`
}

var siteTab map[int32]siteRec

func loadSites() {
	if *fSites == "" {
		return
	}
	b, err := os.ReadFile(*fSites)
	if err != nil {
		return
	}
	var rep struct {
		Sites []siteRec `json:"sites"`
	}
	if json.Unmarshal(b, &rep) != nil {
		return
	}
	siteTab = map[int32]siteRec{}
	for _, s := range rep.Sites {
		siteTab[int32(s.ID)] = s
	}
	siteName = func(s int32) string {
		switch s {
		case -1:
			return "harness channel op"
		case -2:
			return "after harness channel op"
		case -3:
			return "harness sync"
		case -4:
			return "harness sleep"
		case -5:
			return "harness snooze"
		}
		if r, ok := siteTab[s]; ok {
			return fmt.Sprintf("%s:%d (%s in %s)", r.File, r.Line, r.Kind, r.Func)
		}
		return "site" + strconv.Itoa(int(s))
	}
}

func TestMain(m *testing.M) {
	flag.Parse()
	loadSites()
	os.Exit(m.Run())
}

// Summary is what one worker reports to the driver.
type Summary struct {
	Prop       string            `json:"prop"`
	Worker     int               `json:"worker"`
	Worlds     int               `json:"worlds"`
	NonTrivial int               `json:"nontrivial"`
	Decisions  int64             `json:"decisions"`
	Steps      int64             `json:"steps"`
	Switches   int64             `json:"switches"`
	SimNs      int64             `json:"sim_ns"`
	Probes     map[string]int    `json:"probes"`
	Faults     map[string]int    `json:"faults"`
	Strategies map[string]int    `json:"strategies"`
	TaskKinds  map[string]int    `json:"task_kinds"`
	Viol       []ViolRec         `json:"viol"`
	Tool       []string          `json:"tool"`
	WallS      float64           `json:"wall_s"`
	CutShort   bool              `json:"cut_short"`
	SitesHit   int               `json:"sites_hit"`
	SiteIDs    []int32           `json:"site_ids"`
	Samples    []json.RawMessage `json:"samples"`
	Diverge    int               `json:"diverge"`
	LastIndex  int               `json:"last_index"`
}

type ViolRec struct {
	Index     int    `json:"index"`
	Signature string `json:"signature"`
	Detail    string `json:"detail"`
	File      string `json:"file"`
	LogHash   string `json:"log_hash"`
}

func TestWorlds(t *testing.T) {
	switch *fMode {
	case "":
		t.Skip("no gsim.mode")
	case "search":
		search(t)
	case "replay":
		replay(t)
	case "det":
		det(t)
	case "min":
		minimise(t)
	default:
		t.Fatalf("unknown mode %q", *fMode)
	}
}

func nonTrivial(r *Result) bool {
	return r.Switches > 1 || r.Probes["conflict"] > 0 || r.Decisions > 3 || r.Probes["nontrivial"] > 0
}

func search(t *testing.T) {
	start := time.Now()
	sum := &Summary{Prop: *fProp, Worker: *fWorker, Probes: map[string]int{}, Faults: map[string]int{}, Strategies: map[string]int{}, TaskKinds: map[string]int{}}
	seenSig := map[string]int{}
	var hashes []uint64
	var swsigs []uint64
	for idx := *fFrom; idx < *fTo; idx += *fStride {
		if *fBudget > 0 && time.Since(start).Seconds() > *fBudget {
			sum.CutShort = true
			break
		}
		w := gen.World(*fProp, *fSeed, idx, *fTier)
		res := Run(t, w, false)
		sum.Worlds++
		sum.LastIndex = idx
		sum.Decisions += res.Decisions
		sum.Steps += res.Steps
		sum.Switches += res.Switches
		sum.SimNs += res.SimNs
		sum.Diverge += res.Diverge
		sum.Strategies[w.Sched.Strategy]++
		for _, ts := range w.Tasks {
			sum.TaskKinds[ts.Kind]++
		}
		for k, v := range res.Probes {
			sum.Probes[k] += v
		}
		for k, v := range res.Faults {
			sum.Faults[k] += v
		}
		if res.Switches > 1 {
			swsigs = append(swsigs, res.SwitchSig)
		}
		if nonTrivial(res) {
			sum.NonTrivial++
			h, _ := strconv.ParseUint(res.LogHash, 16, 64)
			hashes = append(hashes, h)
		}
		if len(sum.Samples) < 2 && nonTrivial(res) {
			b, _ := json.Marshal(w)
			if len(b) < 6000 {
				sum.Samples = append(sum.Samples, b)
			}
		}
		if res.Tool != "" {
			if len(sum.Tool) < 5 {
				sum.Tool = append(sum.Tool, fmt.Sprintf("world %d: %s", idx, res.Tool))
			}
			continue
		}
		if sig := res.Signature(); sig != "" {
			seenSig[sig]++
			if seenSig[sig] == 1 && len(sum.Viol) < 40 {
				w.Expect = &world.Expect{Signature: sig, LogHash: res.LogHash, Detail: res.Viol[0].Detail}
				f := filepath.Join(*fOut, fmt.Sprintf("cand-%s-w%d-%d.json", *fProp, *fWorker, idx))
				w.Save(f)
				sum.Viol = append(sum.Viol, ViolRec{Index: idx, Signature: sig, Detail: res.Viol[0].Detail, File: f, LogHash: res.LogHash})
			}
		}
	}
	sum.WallS = time.Since(start).Seconds()
	for s := range SiteHits {
		sum.SiteIDs = append(sum.SiteIDs, s)
	}
	sort.Slice(sum.SiteIDs, func(i, j int) bool { return sum.SiteIDs[i] < sum.SiteIDs[j] })
	sum.SitesHit = len(sum.SiteIDs)
	b, _ := json.Marshal(sum)
	os.WriteFile(filepath.Join(*fOut, fmt.Sprintf("summary-%s-w%d.json", *fProp, *fWorker)), b, 0o644)
	hb := make([]byte, 8*len(hashes))
	for i, h := range hashes {
		binary.LittleEndian.PutUint64(hb[8*i:], h)
	}
	os.WriteFile(filepath.Join(*fOut, fmt.Sprintf("hashes-%s-w%d.bin", *fProp, *fWorker)), hb, 0o644)
	sb := make([]byte, 8*len(swsigs))
	for i, h := range swsigs {
		binary.LittleEndian.PutUint64(sb[8*i:], h)
	}
	os.WriteFile(filepath.Join(*fOut, fmt.Sprintf("switches-%s-w%d.bin", *fProp, *fWorker)), sb, 0o644)
}

// ReplayOut is printed by replay mode.
type ReplayOut struct {
	Signature string   `json:"signature"`
	LogHash   string   `json:"log_hash"`
	Detail    string   `json:"detail"`
	Tool      string   `json:"tool"`
	AllViol   []string `json:"all_viol"`
	Decisions int64    `json:"decisions"`
	Events    []string `json:"events,omitempty"`
}

func replay(t *testing.T) {
	w, err := world.Load(*fWorld)
	if err != nil {
		t.Fatalf("load: %v", err)
	}
	res := Run(t, w, true)
	out := ReplayOut{Signature: res.Signature(), LogHash: res.LogHash, Tool: res.Tool, Decisions: res.Decisions}
	if len(res.Viol) > 0 {
		out.Detail = res.Viol[0].Detail
	}
	for _, v := range res.Viol {
		out.AllViol = append(out.AllViol, v.Prop+"/"+v.Clause)
	}
	if *fOut != "" {
		out.Events = res.Events
		b, _ := json.MarshalIndent(out, "", " ")
		os.WriteFile(*fOut, b, 0o644)
	}
	out.Events = nil
	b, _ := json.Marshal(out)
	fmt.Printf("GSIM-REPLAY %s\n", b)
}

// det prints one line per world: index and log hash (determinism self-test).
func det(t *testing.T) {
	f, err := os.Create(*fOut)
	if err != nil {
		t.Fatal(err)
	}
	defer f.Close()
	for idx := *fFrom; idx < *fTo; idx += *fStride {
		w := gen.World(*fProp, *fSeed, idx, *fTier)
		res := Run(t, w, false)
		fmt.Fprintf(f, "%d %s %s d=%d sw=%d\n", idx, res.LogHash, res.Signature(), res.Decisions, res.Switches)
	}
}

// timing prints the slowest worlds of a range (developer aid).
func TestTiming(t *testing.T) {
	if *fMode != "timing" {
		t.Skip()
	}
	type rec struct {
		idx int
		d   time.Duration
		dec int64
	}
	var recs []rec
	for idx := *fFrom; idx < *fTo; idx += *fStride {
		w := gen.World(*fProp, *fSeed, idx, *fTier)
		s := time.Now()
		res := Run(t, w, false)
		recs = append(recs, rec{idx, time.Since(s), res.Decisions})
	}
	sort.Slice(recs, func(i, j int) bool { return recs[i].d > recs[j].d })
	var tot time.Duration
	for _, r := range recs {
		tot += r.d
	}
	fmt.Printf("total %v over %d worlds\n", tot, len(recs))
	for i := 0; i < 8 && i < len(recs); i++ {
		fmt.Printf("world %d: %v decisions=%d\n", recs[i].idx, recs[i].d, recs[i].dec)
	}
}

// CLIRecord is one in-process run of the tool, for comparison with the real binary (R7 validation).
type CLIRecord struct {
	Index  int      `json:"index"`
	Argv   []string `json:"argv"`
	Path   string   `json:"path"`
	Data   string   `json:"data"`
	Stdout string   `json:"stdout"`
	Exit   int      `json:"exit"`
}

func TestCLIX(t *testing.T) {
	if *fMode != "clix" {
		t.Skip()
	}
	var recs []CLIRecord
	for idx := *fFrom; idx < *fTo && len(recs) < 60; idx++ {
		w := gen.World("C19", *fSeed, idx, *fTier)
		ts := w.Tasks[0]
		if len(w.Knobs) > 0 || len(w.Restarts) > 0 || w.Sched.TickProb > 0 || len(ts.Files) != 1 {
			continue
		}
		f := ts.Files[0]
		if f.OpenErr != "" || f.ReadErr != 0 {
			continue
		}
		verbose := false
		for _, a := range ts.Argv {
			if a == "-verbose" {
				verbose = true // prints the 3-second statistics table: timing dependent in the real binary
			}
		}
		if verbose {
			continue
		}
		res := Run(t, w, false)
		if res.Tool != "" || len(res.Outcomes) != 1 || res.Outcomes[0] == nil {
			continue
		}
		code := 0
		fmt.Sscanf(res.Outcomes[0].Summary, "cli:exit%d", &code)
		for _, v := range res.Viol {
			if len(v.Clause) >= 5 && v.Clause[:5] == "panic" {
				code = -1
			}
		}
		if code < 0 {
			continue
		}
		recs = append(recs, CLIRecord{Index: idx, Argv: ts.Argv, Path: f.Path, Data: f.Data, Stdout: res.Outcomes[0].Info, Exit: code})
	}
	b, _ := json.Marshal(recs)
	os.WriteFile(*fOut, b, 0o644)
}
