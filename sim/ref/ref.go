// Package ref holds the reference models (oracles). It imports nothing from
// gophersat: every judgement is made on the constraints as the caller wrote
// them, by enumeration or by an independent, deliberately naive algorithm.
package ref

import (
	"fmt"
	"sort"
	"strconv"
	"strings"
)

// Con is a linear constraint  sum(Coefs[i] * [Lits[i] true])  Op  K.
// Coefs == nil means all coefficients are 1. Op is ">=", "<=" or "=".
type Con struct {
	Lits  []int  `json:"l"`
	Coefs []int  `json:"w,omitempty"`
	Op    string `json:"op,omitempty"` // "" means ">="
	K     int    `json:"k"`
}

// Clause builds the propositional clause over lits.
func Clause(lits ...int) Con { return Con{Lits: append([]int(nil), lits...), K: 1} }

func (c Con) Clone() Con {
	d := c
	d.Lits = append([]int(nil), c.Lits...)
	if c.Coefs != nil {
		d.Coefs = append([]int(nil), c.Coefs...)
	}
	return d
}

func (c Con) String() string {
	var b strings.Builder
	for i, l := range c.Lits {
		w := 1
		if c.Coefs != nil {
			w = c.Coefs[i]
		}
		fmt.Fprintf(&b, "%+d*%d ", w, l)
	}
	op := c.Op
	if op == "" {
		op = ">="
	}
	fmt.Fprintf(&b, "%s %d", op, c.K)
	return b.String()
}

// LitTrue tells whether literal l holds in assignment a (bit v-1 = variable v).
func LitTrue(l int, a uint32) bool {
	if l > 0 {
		return a>>(uint(l)-1)&1 == 1
	}
	return a>>(uint(-l)-1)&1 == 0
}

// Sum evaluates the left-hand side.
func (c Con) Sum(a uint32) int {
	s := 0
	for i, l := range c.Lits {
		if LitTrue(l, a) {
			if c.Coefs != nil {
				s += c.Coefs[i]
			} else {
				s++
			}
		}
	}
	return s
}

// Holds evaluates the constraint under integer arithmetic.
func (c Con) Holds(a uint32) bool {
	s := c.Sum(a)
	switch c.Op {
	case "", ">=":
		return s >= c.K
	case "<=":
		return s <= c.K
	case "=":
		return s == c.K
	}
	panic("ref: bad op " + c.Op)
}

// MaxVar returns the largest variable mentioned.
func (c Con) MaxVar() int {
	m := 0
	for _, l := range c.Lits {
		if l < 0 {
			l = -l
		}
		if l > m {
			m = l
		}
	}
	return m
}

// Cost is a linear objective sum(Coefs[i]*[Lits[i] true]); Coefs nil = all 1.
type Cost struct {
	Lits  []int `json:"l"`
	Coefs []int `json:"w,omitempty"`
}

func (c *Cost) Value(a uint32) int {
	return Con{Lits: c.Lits, Coefs: c.Coefs}.Sum(a)
}

// Problem is a conjunction of constraints over variables 1..N.
type Problem struct {
	N    int   `json:"n"`
	Cons []Con `json:"cons"`
	Cost *Cost `json:"cost,omitempty"`
}

func CNF(n int, clauses [][]int) *Problem {
	p := &Problem{N: n}
	for _, c := range clauses {
		p.Cons = append(p.Cons, Clause(c...))
		if m := p.Cons[len(p.Cons)-1].MaxVar(); m > p.N {
			p.N = m
		}
	}
	return p
}

func (p *Problem) Holds(a uint32) bool {
	for i := range p.Cons {
		if !p.Cons[i].Holds(a) {
			return false
		}
	}
	return true
}

// FirstViolated returns the index of a violated constraint or -1.
func (p *Problem) FirstViolated(a uint32) int {
	for i := range p.Cons {
		if !p.Cons[i].Holds(a) {
			return i
		}
	}
	return -1
}

// Enumerate calls f on every assignment over N variables (N <= 24).
func (p *Problem) space() uint32 {
	if p.N > 24 {
		panic("ref: enumeration over more than 24 variables")
	}
	return uint32(1) << uint(p.N)
}

// Count returns the number of models over variables 1..N.
func (p *Problem) Count() int {
	n := 0
	for a := uint32(0); a < p.space(); a++ {
		if p.Holds(a) {
			n++
		}
	}
	return n
}

// Models returns all models in increasing order.
func (p *Problem) Models() []uint32 {
	var out []uint32
	for a := uint32(0); a < p.space(); a++ {
		if p.Holds(a) {
			out = append(out, a)
		}
	}
	return out
}

// Satisfiable says whether a model exists and returns one.
func (p *Problem) Satisfiable() (bool, uint32) {
	for a := uint32(0); a < p.space(); a++ {
		if p.Holds(a) {
			return true, a
		}
	}
	return false, 0
}

// Optimum returns the minimum of cost over all models.
func (p *Problem) Optimum(cost *Cost) (min int, sat bool) {
	for a := uint32(0); a < p.space(); a++ {
		if p.Holds(a) {
			v := 0
			if cost != nil {
				v = cost.Value(a)
			}
			if !sat || v < min {
				min = v
			}
			sat = true
		}
	}
	return min, sat
}

// Entails says whether every model of p satisfies c.
func (p *Problem) Entails(c Con) (bool, uint32) {
	for a := uint32(0); a < p.space(); a++ {
		if p.Holds(a) && !c.Holds(a) {
			return false, a
		}
	}
	return true, 0
}

// Bools converts a []bool model (index i = variable i+1) to a bit set.
func Bools(m []bool) uint32 {
	var a uint32
	for i, b := range m {
		if b && i < 32 {
			a |= 1 << uint(i)
		}
	}
	return a
}

// ---------------------------------------------------------------------------
// Larger CNF: a plain DPLL and model validation on [][]int.

// ClauseSat tells whether the model (index i = variable i+1) satisfies the clause.
func ClauseSat(c []int, m []bool) bool {
	for _, l := range c {
		v := l
		if v < 0 {
			v = -v
		}
		if v-1 >= len(m) {
			continue
		}
		if (l > 0) == m[v-1] {
			return true
		}
	}
	return false
}

// CNFSatBy returns the index of a clause not satisfied by m, or -1.
func CNFSatBy(clauses [][]int, m []bool) int {
	for i, c := range clauses {
		if !ClauseSat(c, m) {
			return i
		}
	}
	return -1
}

// DPLL decides a CNF with unit propagation and chronological backtracking.
// steps bounds the work; ok=false means the bound was hit (no verdict).
func DPLL(n int, clauses [][]int, steps int) (sat bool, model []bool, ok bool) {
	d := &dpll{n: n, cls: clauses, val: make([]int8, n+1), budget: steps}
	// branching only concerns variables that occur in some clause (the others keep the value false): files
	// with tens of thousands of declared variables and few clauses stay cheap
	seen := make([]bool, n+1)
	for _, c := range clauses {
		for _, l := range c {
			if l < 0 {
				l = -l
			}
			if l >= 1 && l <= n && !seen[l] {
				seen[l] = true
			}
		}
	}
	for v := 1; v <= n; v++ {
		if seen[v] {
			d.occ = append(d.occ, v)
		}
	}
	r := d.solve(0)
	if d.budget <= 0 {
		return false, nil, false
	}
	if r {
		model = make([]bool, n)
		for v := 1; v <= n; v++ {
			model[v-1] = d.val[v] > 0
		}
	}
	return r, model, true
}

type dpll struct {
	n      int
	cls    [][]int
	val    []int8
	budget int
	occ    []int // variables occurring in the clauses, ascending: the branching order
}

func (d *dpll) lit(l int) int8 {
	if l > 0 {
		return d.val[l]
	}
	return -d.val[-l]
}

func (d *dpll) solve(from int) bool {
	d.budget--
	if d.budget <= 0 {
		return false
	}
	var trail []int
	undo := func() {
		for _, v := range trail {
			d.val[v] = 0
		}
	}
	for changed := true; changed; {
		changed = false
		for _, c := range d.cls {
			free, nfree, sat := 0, 0, false
			for _, l := range c {
				s := d.lit(l)
				if s == 1 {
					sat = true
					break
				}
				if s == 0 {
					if nfree == 0 {
						free, nfree = l, 1
					} else if l != free {
						nfree = 2
					}
				}
			}
			if sat || nfree == 2 {
				continue
			}
			if nfree == 0 {
				undo()
				return false
			}
			if nfree == 1 {
				v := free
				if v < 0 {
					v = -v
				}
				if free > 0 {
					d.val[v] = 1
				} else {
					d.val[v] = -1
				}
				trail = append(trail, v)
				changed = true
			}
		}
	}
	// every variable before position from in the branching order is assigned (branched on, or propagated)
	br := 0
	for ; from < len(d.occ); from++ {
		if v := d.occ[from]; d.val[v] == 0 {
			br = v
			break
		}
	}
	if br == 0 {
		return true
	}
	for _, s := range []int8{1, -1} {
		d.val[br] = s
		if d.solve(from + 1) {
			return true
		}
		d.val[br] = 0
		if d.budget <= 0 {
			break
		}
	}
	undo()
	return false
}

// ---------------------------------------------------------------------------
// Independent RUP checker.

// RUP is a forward reverse-unit-propagation checker with its own clause store.
type RUP struct {
	n   int
	cls [][]int
}

func NewRUP(n int, clauses [][]int) *RUP {
	r := &RUP{n: n}
	for _, c := range clauses {
		r.cls = append(r.cls, append([]int(nil), c...))
		for _, l := range c {
			if l < 0 {
				l = -l
			}
			if l > r.n {
				r.n = l
			}
		}
	}
	return r
}

// propagate returns true when unit propagation from the given assumed-false
// literals reaches a conflict.
func (r *RUP) conflict(falsified []int) bool {
	val := make([]int8, r.n+1)
	set := func(l int) bool { // make l true; false if contradiction
		v, s := l, int8(1)
		if l < 0 {
			v, s = -l, -1
		}
		if v > r.n {
			return true
		}
		if val[v] == -s {
			return false
		}
		val[v] = s
		return true
	}
	for _, l := range falsified {
		if !set(-l) {
			return true
		}
	}
	lit := func(l int) int8 {
		v := l
		if v < 0 {
			v = -v
		}
		if v > r.n {
			return 0
		}
		if l > 0 {
			return val[v]
		}
		return -val[v]
	}
	for changed := true; changed; {
		changed = false
		for _, c := range r.cls {
			sat := false
			unit, nfree := 0, 0
			for _, l := range c {
				s := lit(l)
				if s == 1 {
					sat = true
					break
				}
				if s == 0 {
					if nfree == 0 {
						unit = l
						nfree = 1
					} else if l != unit {
						nfree = 2
						break
					}
				}
			}
			if sat || nfree == 2 {
				continue
			}
			if nfree == 0 {
				return true
			}
			if !set(unit) {
				return true
			}
			changed = true
		}
	}
	return false
}

// Check tests whether clause is RUP w.r.t. the store; if so it is added.
func (r *RUP) Check(clause []int) bool {
	for _, l := range clause {
		v := l
		if v < 0 {
			v = -v
		}
		if v > r.n {
			r.n = v
		}
	}
	if !r.conflict(clause) {
		return false
	}
	r.cls = append(r.cls, append([]int(nil), clause...))
	return true
}

// Refuted tells whether the empty clause is RUP now.
func (r *RUP) Refuted() bool { return r.conflict(nil) }

// ParseCertLine parses "l1 l2 ... 0" ; ok=false for non-clause lines.
func ParseCertLine(line string) (clause []int, ok bool) {
	f := strings.Fields(line)
	if len(f) == 0 {
		return nil, false
	}
	for i, s := range f {
		v, err := strconv.Atoi(s)
		if err != nil {
			return nil, false
		}
		if v == 0 {
			if i != len(f)-1 {
				return nil, false
			}
			return clause, true
		}
		clause = append(clause, v)
	}
	return nil, false // no terminator
}

// ---------------------------------------------------------------------------
// MUS judge (by enumeration; n small) and multiset helpers.

func clauseKey(c []int) string {
	d := append([]int(nil), c...)
	sort.Ints(d)
	return fmt.Sprint(d)
}

// SubMultiset says whether every clause of sub occurs in full at least as often
// (clauses compared as literal multisets, order-insensitive).
func SubMultiset(sub, full [][]int) bool {
	cnt := map[string]int{}
	for _, c := range full {
		cnt[clauseKey(c)]++
	}
	for _, c := range sub {
		k := clauseKey(c)
		if cnt[k] == 0 {
			return false
		}
		cnt[k]--
	}
	return true
}

// CNFSat decides a small CNF by enumeration when n <= 20, else DPLL.
func CNFSat(n int, clauses [][]int) bool {
	for _, c := range clauses {
		for _, l := range c {
			if l < 0 {
				l = -l
			}
			if l > n {
				n = l
			}
		}
	}
	if n <= 16 {
		ok, _ := CNF(n, clauses).Satisfiable()
		return ok
	}
	sat, _, ok := DPLL(n, clauses, 50_000_000)
	if !ok {
		panic("ref: DPLL budget exhausted")
	}
	return sat
}

// JudgeMUS returns "" if mus is an unsatisfiable, minimal sub-multiset of full.
func JudgeMUS(n int, full, mus [][]int) string {
	if !SubMultiset(mus, full) {
		return "result is not a sub-multiset of the input clauses"
	}
	if CNFSat(n, mus) {
		return "result is satisfiable"
	}
	for i := range mus {
		rest := make([][]int, 0, len(mus)-1)
		rest = append(rest, mus[:i]...)
		rest = append(rest, mus[i+1:]...)
		if !CNFSat(n, rest) {
			return fmt.Sprintf("not minimal: clause %d %v can be removed and the rest stays unsatisfiable", i, mus[i])
		}
	}
	return ""
}

// SomeModels returns up to k models, visiting the assignments in a pseudo-random order that is a
// pure function of seed (an odd-step walk over the 2^N assignments), and stopping early.
func (p *Problem) SomeModels(k int, seed uint64) []uint32 {
	size := uint64(p.space())
	start := seed % size
	step := (seed>>20)%size | 1
	var out []uint32
	a := start
	for i := uint64(0); i < size && len(out) < k; i++ {
		if p.Holds(uint32(a)) {
			out = append(out, uint32(a))
		}
		a = (a + step) % size
	}
	return out
}
