package ref

import (
	"fmt"
	"strconv"
	"strings"
)

// Reference readers, written from the format definitions. They accept exactly
// the grammars the generator is confined to (DESIGN.md, C13).

func lines(text string) []string {
	ls := strings.Split(text, "\n")
	for i := range ls {
		ls[i] = strings.TrimSuffix(ls[i], "\r")
	}
	return ls
}

// ReadDIMACS reads a DIMACS CNF text: 'c' comment lines, one 'p cnf V C' line,
// then literals separated by blanks or newlines, each clause ended by 0.
func ReadDIMACS(text string) (n int, clauses [][]int, err error) {
	seenHeader := false
	var cur []int
	open := false
	for _, ln := range lines(text) {
		if strings.HasPrefix(ln, "c") {
			continue
		}
		if strings.HasPrefix(ln, "p") {
			f := strings.Fields(ln)
			if len(f) != 4 || f[0] != "p" || f[1] != "cnf" {
				return 0, nil, fmt.Errorf("bad header %q", ln)
			}
			n, err = strconv.Atoi(f[2])
			if err != nil {
				return 0, nil, err
			}
			seenHeader = true
			continue
		}
		for _, tok := range strings.Fields(ln) {
			v, e := strconv.Atoi(tok)
			if e != nil {
				return 0, nil, fmt.Errorf("bad token %q", tok)
			}
			if !seenHeader {
				return 0, nil, fmt.Errorf("clause before header")
			}
			if v == 0 {
				clauses = append(clauses, append([]int{}, cur...))
				cur = cur[:0]
				open = false
				continue
			}
			if v > n || -v > n {
				return 0, nil, fmt.Errorf("literal %d out of range", v)
			}
			cur = append(cur, v)
			open = true
		}
	}
	if open {
		return 0, nil, fmt.Errorf("unterminated clause")
	}
	return n, clauses, nil
}

func parseTerms(toks []string) (lits, coefs []int, maxv int, err error) {
	i := 0
	for i < len(toks) {
		w := 1
		if v, e := strconv.Atoi(toks[i]); e == nil {
			w = v
			i++
			if i >= len(toks) {
				return nil, nil, 0, fmt.Errorf("coefficient without variable")
			}
		}
		t := toks[i]
		neg := false
		if strings.HasPrefix(t, "~") {
			neg = true
			t = t[1:]
		}
		if !strings.HasPrefix(t, "x") {
			return nil, nil, 0, fmt.Errorf("bad variable %q", toks[i])
		}
		v, e := strconv.Atoi(t[1:])
		if e != nil || v < 1 {
			return nil, nil, 0, fmt.Errorf("bad variable %q", toks[i])
		}
		if v > maxv {
			maxv = v
		}
		if neg {
			v = -v
		}
		lits = append(lits, v)
		coefs = append(coefs, w)
		i++
	}
	return
}

// ReadOPB reads a linear OPB text: '*' comment lines, at most one 'min:' line,
// constraints 'terms (>=|=) rhs ;' one per line.
func ReadOPB(text string) (p *Problem, err error) {
	p = &Problem{}
	for _, ln := range lines(text) {
		if ln == "" || strings.HasPrefix(ln, "*") {
			continue
		}
		ln = strings.TrimSpace(ln)
		if !strings.HasSuffix(ln, ";") {
			return nil, fmt.Errorf("line %q does not end with ;", ln)
		}
		toks := strings.Fields(strings.TrimSuffix(ln, ";"))
		if len(toks) == 0 {
			return nil, fmt.Errorf("empty constraint")
		}
		if toks[0] == "min:" {
			if p.Cost != nil {
				return nil, fmt.Errorf("two objective lines")
			}
			l, w, mv, e := parseTerms(toks[1:])
			if e != nil {
				return nil, e
			}
			p.Cost = &Cost{Lits: l, Coefs: w}
			if p.Cost.Lits == nil {
				p.Cost.Lits = []int{}
				p.Cost.Coefs = []int{}
			}
			if mv > p.N {
				p.N = mv
			}
			continue
		}
		if len(toks) < 3 {
			return nil, fmt.Errorf("short constraint %q", ln)
		}
		op := toks[len(toks)-2]
		if op != ">=" && op != "=" {
			return nil, fmt.Errorf("bad relation %q", op)
		}
		k, e := strconv.Atoi(toks[len(toks)-1])
		if e != nil {
			return nil, e
		}
		l, w, mv, e := parseTerms(toks[:len(toks)-2])
		if e != nil {
			return nil, e
		}
		if mv > p.N {
			p.N = mv
		}
		p.Cons = append(p.Cons, Con{Lits: l, Coefs: w, Op: op, K: k})
	}
	return p, nil
}

// WClause is one WCNF clause; Hard reports weight >= top (when a top is given).
type WClause struct {
	Lits   []int
	Weight int
	Hard   bool
}

// ReadWCNF reads 'p wcnf V C [top]' followed by one clause per line 'w l... 0'.
func ReadWCNF(text string) (n int, cl []WClause, err error) {
	top := 0
	hasTop := false
	seen := false
	for _, ln := range lines(text) {
		if ln == "" || strings.HasPrefix(ln, "c") {
			continue
		}
		f := strings.Fields(ln)
		if len(f) == 0 {
			continue
		}
		if f[0] == "p" {
			if len(f) < 4 || f[1] != "wcnf" {
				return 0, nil, fmt.Errorf("bad header %q", ln)
			}
			n, err = strconv.Atoi(f[2])
			if err != nil {
				return 0, nil, err
			}
			if len(f) >= 5 {
				top, err = strconv.Atoi(f[4])
				if err != nil {
					return 0, nil, err
				}
				hasTop = true
			}
			seen = true
			continue
		}
		if !seen {
			return 0, nil, fmt.Errorf("clause before header")
		}
		w, e := strconv.Atoi(f[0])
		if e != nil || w < 1 {
			return 0, nil, fmt.Errorf("bad weight in %q", ln)
		}
		if f[len(f)-1] != "0" {
			return 0, nil, fmt.Errorf("unterminated clause %q", ln)
		}
		c := WClause{Weight: w, Hard: hasTop && w >= top, Lits: []int{}}
		for _, tok := range f[1 : len(f)-1] {
			v, e := strconv.Atoi(tok)
			if e != nil || v == 0 || v > n || -v > n {
				return 0, nil, fmt.Errorf("bad literal %q", tok)
			}
			c.Lits = append(c.Lits, v)
		}
		cl = append(cl, c)
	}
	return n, cl, nil
}

// BF is a small reference formula type for the .bf files of C19 (gophersat's
// documented text syntax: ^ & | -> = ; and {a, b, c} exactly-one groups).
type BF struct {
	Op    string   `json:"op"` // var not and or implies eq unique top (";"-conjunction)
	Var   string   `json:"var,omitempty"`
	Subs  []*BF    `json:"subs,omitempty"`
	Names []string `json:"names,omitempty"`
}

func (f *BF) Eval(m map[string]bool) bool {
	switch f.Op {
	case "var":
		return m[f.Var]
	case "not":
		return !f.Subs[0].Eval(m)
	case "and", "top":
		for _, s := range f.Subs {
			if !s.Eval(m) {
				return false
			}
		}
		return true
	case "or":
		for _, s := range f.Subs {
			if s.Eval(m) {
				return true
			}
		}
		return false
	case "implies":
		return !f.Subs[0].Eval(m) || f.Subs[1].Eval(m)
	case "eq":
		return f.Subs[0].Eval(m) == f.Subs[1].Eval(m)
	case "unique":
		n := 0
		for _, v := range f.Names {
			if m[v] {
				n++
			}
		}
		return n == 1
	}
	panic("ref: bad BF op " + f.Op)
}

// Vars returns the variable names in order of first appearance.
func (f *BF) Vars() []string {
	seen := map[string]bool{}
	var out []string
	var rec func(g *BF)
	rec = func(g *BF) {
		if g.Op == "var" && !seen[g.Var] {
			seen[g.Var] = true
			out = append(out, g.Var)
		}
		for _, v := range g.Names {
			if !seen[v] {
				seen[v] = true
				out = append(out, v)
			}
		}
		for _, s := range g.Subs {
			rec(s)
		}
	}
	rec(f)
	return out
}

// Render writes the formula fully parenthesised (precedence is C17's business, not C19's).
func (f *BF) Render() string {
	switch f.Op {
	case "var":
		return f.Var
	case "not":
		return "^(" + f.Subs[0].Render() + ")"
	case "top":
		parts := make([]string, len(f.Subs))
		for i, s := range f.Subs {
			parts[i] = s.Render()
		}
		return strings.Join(parts, ";\n")
	case "and", "or", "implies", "eq":
		op := map[string]string{"and": " & ", "or": " | ", "implies": " -> ", "eq": " = "}[f.Op]
		parts := make([]string, len(f.Subs))
		for i, s := range f.Subs {
			parts[i] = "(" + s.Render() + ")"
		}
		return strings.Join(parts, op)
	case "unique":
		return "{" + strings.Join(f.Names, ", ") + "}"
	}
	panic("ref: bad BF op " + f.Op)
}

// Satisfiable enumerates assignments over the formula's variables.
func (f *BF) Satisfiable() bool {
	vs := f.Vars()
	for a := 0; a < 1<<uint(len(vs)); a++ {
		m := map[string]bool{}
		for i, v := range vs {
			m[v] = a>>uint(i)&1 == 1
		}
		if f.Eval(m) {
			return true
		}
	}
	return false
}
