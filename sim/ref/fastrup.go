package ref

// FastRUP is a forward reverse-unit-propagation checker with two watched
// literals per clause, for certificates of tens of thousands of lines (the
// naive checker RUP re-scans every clause for every line). It shares no code
// with gophersat, and its answers are cross-checked against RUP on small
// inputs by TestFastRUPAgreesWithNaive.
type FastRUP struct {
	n       int
	val     []int8 // per variable: 0 unknown, 1 true, -1 false
	trail   []int
	qhead   int
	watches [][]*frClause // index: lit code
	refuted bool
}

type frClause struct{ lits []int }

func code(l int) int {
	if l > 0 {
		return 2 * l
	}
	return -2*l + 1
}

func NewFastRUP(n int, clauses [][]int) *FastRUP {
	for _, c := range clauses {
		for _, l := range c {
			if l < 0 {
				l = -l
			}
			if l > n {
				n = l
			}
		}
	}
	r := &FastRUP{n: n, val: make([]int8, n+1), watches: make([][]*frClause, 2*n+2)}
	for _, c := range clauses {
		r.add(c)
	}
	return r
}

func (r *FastRUP) grow(v int) {
	if v <= r.n {
		return
	}
	nv := make([]int8, v+1)
	copy(nv, r.val)
	r.val = nv
	nw := make([][]*frClause, 2*v+2)
	copy(nw, r.watches)
	r.watches = nw
	r.n = v
}

func (r *FastRUP) value(l int) int8 {
	if l > 0 {
		return r.val[l]
	}
	return -r.val[-l]
}

func (r *FastRUP) assign(l int) {
	if l > 0 {
		r.val[l] = 1
	} else {
		r.val[-l] = -1
	}
	r.trail = append(r.trail, l)
}

// propagate runs unit propagation from qhead; true means a conflict was met.
func (r *FastRUP) propagate() bool {
	for r.qhead < len(r.trail) {
		l := r.trail[r.qhead]
		r.qhead++
		fl := -l // this literal just became false
		ws := r.watches[code(fl)]
		kept := ws[:0]
		conflict := false
		for i := 0; i < len(ws); i++ {
			c := ws[i]
			if conflict {
				kept = append(kept, c)
				continue
			}
			// make sure the false literal is at position 1
			if c.lits[0] == fl {
				c.lits[0], c.lits[1] = c.lits[1], c.lits[0]
			}
			if r.value(c.lits[0]) == 1 {
				kept = append(kept, c)
				continue
			}
			moved := false
			for k := 2; k < len(c.lits); k++ {
				if r.value(c.lits[k]) != -1 {
					c.lits[1], c.lits[k] = c.lits[k], c.lits[1]
					r.watches[code(c.lits[1])] = append(r.watches[code(c.lits[1])], c)
					moved = true
					break
				}
			}
			if moved {
				continue
			}
			kept = append(kept, c)
			switch r.value(c.lits[0]) {
			case -1:
				conflict = true
			case 0:
				r.assign(c.lits[0])
			}
		}
		r.watches[code(fl)] = kept
		if conflict {
			return true
		}
	}
	return false
}

func (r *FastRUP) undo(to int) {
	for i := len(r.trail) - 1; i >= to; i-- {
		l := r.trail[i]
		if l < 0 {
			l = -l
		}
		r.val[l] = 0
	}
	r.trail = r.trail[:to]
	r.qhead = to
}

// add stores a clause permanently (top level) and propagates its consequences.
func (r *FastRUP) add(c []int) {
	if r.refuted {
		return
	}
	var lits []int
	for _, l := range c {
		v := l
		if v < 0 {
			v = -v
		}
		r.grow(v)
		dup, taut := false, false
		for _, m := range lits {
			dup = dup || m == l
			taut = taut || m == -l
		}
		if taut {
			return
		}
		if !dup {
			lits = append(lits, l)
		}
	}
	// literals that are not false first
	k := 0
	for i, l := range lits {
		if r.value(l) != -1 {
			lits[k], lits[i] = lits[i], lits[k]
			k++
		}
	}
	switch {
	case k == 0:
		r.refuted = true
		return
	case len(lits) == 1 || k == 1:
		if r.value(lits[0]) == 0 {
			r.assign(lits[0])
			if r.propagate() {
				r.refuted = true
			}
		}
		if len(lits) == 1 {
			return
		}
	}
	cl := &frClause{lits: lits}
	r.watches[code(lits[0])] = append(r.watches[code(lits[0])], cl)
	r.watches[code(lits[1])] = append(r.watches[code(lits[1])], cl)
}

// Check tells whether c follows by unit propagation from what is stored, and
// stores it if so.
func (r *FastRUP) Check(c []int) bool {
	if r.refuted {
		return true
	}
	mark := len(r.trail)
	ok := false
	for _, l := range c {
		v := l
		if v < 0 {
			v = -v
		}
		r.grow(v)
		switch r.value(l) {
		case 1:
			ok = true // already true at top level (or its negation was assumed: a tautology)
		case 0:
			r.assign(-l)
		}
		if ok {
			break
		}
	}
	if !ok {
		ok = r.propagate()
	}
	r.undo(mark)
	if ok {
		r.add(c)
	}
	return ok
}

// Refuted tells whether the empty clause has been derived.
func (r *FastRUP) Refuted() bool { return r.refuted }
