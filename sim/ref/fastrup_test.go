package ref

import (
	"math/rand"
	"testing"
)

// The two checkers must agree line by line on random clause sequences (accepted lines are added by both).
func TestFastRUPAgreesWithNaive(t *testing.T) {
	r := rand.New(rand.NewSource(7))
	for it := 0; it < 20000; it++ {
		n := 2 + r.Intn(7)
		var cls [][]int
		for i := 0; i < 1+r.Intn(3*n); i++ {
			var c []int
			for j := 0; j < 1+r.Intn(3); j++ {
				l := 1 + r.Intn(n)
				if r.Intn(2) == 0 {
					l = -l
				}
				c = append(c, l)
			}
			cls = append(cls, c)
		}
		a, b := NewRUP(n, cls), NewFastRUP(n, cls)
		for i := 0; i < 12; i++ {
			var c []int
			for j := 0; j < r.Intn(4); j++ {
				l := 1 + r.Intn(n)
				if r.Intn(2) == 0 {
					l = -l
				}
				c = append(c, l)
			}
			x, y := a.Check(c), b.Check(c)
			if x != y {
				t.Fatalf("iteration %d line %d: naive=%v fast=%v clauses=%v line=%v", it, i, x, y, cls, c)
			}
			if a.Refuted() != b.Refuted() {
				t.Fatalf("iteration %d line %d: refuted naive=%v fast=%v clauses=%v line=%v", it, i, a.Refuted(), b.Refuted(), cls, c)
			}
		}
	}
}
