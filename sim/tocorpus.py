#!/usr/bin/env python3
# move replays/<P>-seedS-wI.json (violations found before a fix) into the regression corpus
import json,os,re,glob,sys
for f in sorted(glob.glob('/verif/replays/*.json')):
    w=json.load(open(f)); prop=w['property']; sig=w['expect']['signature']
    slug=re.sub(r'[^A-Za-z0-9]+','-',sig.split('/',1)[1])[:50].strip('-')
    d=f'/verif/replays/corpus/{prop}'; os.makedirs(d,exist_ok=True)
    w['note']='found by the '+prop+' check before the fix; must pass now'
    w['found']=w.pop('expect')
    json.dump(w,open(f'{d}/{slug}-{os.path.basename(f)}','w'),indent=1)
    os.remove(f); print('->',f'{d}/{slug}-{os.path.basename(f)}')
