// Package known reads /verif/known_findings.json: genuine defects of the tree
// that are recorded rather than repaired. A finding is identified by the
// property, a trigger (a predicate on the world: the specific kind of input or
// history that fails) and the violation signatures it produces; anything else
// is still reported as a VIOLATION. The file is never written at run time.
package known

import (
	"encoding/json"
	"os"
	"strings"

	"gsim/ref"
	"gsim/world"
)

type Finding struct {
	Property   string   `json:"property"`
	ID         string   `json:"id"`
	What       string   `json:"what"`
	Trigger    string   `json:"trigger"`
	Signatures []string `json:"signatures"` // prefixes
	Witness    string   `json:"witness"`    // path relative to /verif
}

type File struct {
	Findings []Finding `json:"findings"`
	Fixed    []string  `json:"fixed"`
}

func Load(path string) *File {
	f := &File{}
	b, err := os.ReadFile(path)
	if err != nil {
		return f
	}
	json.Unmarshal(b, f)
	return f
}

func (f *File) For(prop string) []Finding {
	var out []Finding
	for _, k := range f.Findings {
		if k.Property == prop {
			out = append(out, k)
		}
	}
	return out
}

func (k *Finding) MatchSig(sig string) bool {
	for _, p := range k.Signatures {
		if strings.HasPrefix(sig, p) {
			return true
		}
	}
	return false
}

// Match returns the finding that covers this violation, or nil.
func (f *File) Match(prop, sig string, w *world.World) *Finding {
	for i := range f.Findings {
		k := &f.Findings[i]
		if k.Property != prop || !k.MatchSig(sig) {
			continue
		}
		if Trigger(k.Trigger, w) {
			return k
		}
	}
	return nil
}

func anyTask(w *world.World, pred func(t *world.TaskSpec) bool) bool {
	var rec func(ts []world.TaskSpec) bool
	rec = func(ts []world.TaskSpec) bool {
		for i := range ts {
			if pred(&ts[i]) || rec(ts[i].Extra) {
				return true
			}
		}
		return false
	}
	return rec(w.Tasks)
}

// Trigger evaluates a named predicate on a world.
func Trigger(name string, w *world.World) bool {
	switch name {
	case "neg-cost-coef": // an OPB cost function with a negative coefficient
		return anyTask(w, func(t *world.TaskSpec) bool {
			if t.Cost == nil {
				return false
			}
			for _, c := range t.Cost.Coefs {
				if c < 0 {
					return true
				}
			}
			return false
		})
	case "bf-unique-gt4-nonpositive": // an exactly-one group of more than 4 names under a negation, an equivalence or on the left of an implication
		return anyTask(w, func(t *world.TaskSpec) bool { return t.Formula != nil && bigUniqueNonPositive(t.Formula, true, false) })
	case "musmaxsat": // the MaxSat-based MUS extraction method
		return anyTask(w, func(t *world.TaskSpec) bool { return t.Kind == "mus" && t.Entry == "MUSMaxSat" })
	case "cp-nonclausal": // cutting planes switched on for a problem that has (or gets) a non-clausal constraint
		return anyTask(w, func(t *world.TaskSpec) bool {
			cp := t.CP || t.Entry == "both" || t.Entry == "cp-both"
			for _, a := range t.Argv {
				if a == "-cp" {
					cp = true
				}
			}
			if !cp {
				return false
			}
			if t.AMO || t.Kind == "cli" {
				return true
			}
			for _, c := range t.Cons {
				if c.K != 1 || c.Coefs != nil || (c.Op != "" && c.Op != ">=") {
					return true
				}
			}
			return false
		})
	case "cutting-planes": // the cutting-planes strategy is switched on
		return anyTask(w, func(t *world.TaskSpec) bool {
			if t.CP || t.Entry == "both" || t.Entry == "cp-both" {
				return true
			}
			for _, a := range t.Argv {
				if a == "-cp" {
					return true
				}
			}
			return false
		})
	}
	return false
}

// bigUniqueNonPositive walks a formula tracking polarity.
func bigUniqueNonPositive(f *ref.BF, pos, both bool) bool {
	switch f.Op {
	case "unique":
		return len(f.Names) > 4 && (!pos || both)
	case "not":
		return bigUniqueNonPositive(f.Subs[0], !pos, both)
	case "implies":
		return bigUniqueNonPositive(f.Subs[0], !pos, both) || bigUniqueNonPositive(f.Subs[1], pos, both)
	case "eq":
		return bigUniqueNonPositive(f.Subs[0], pos, true) || bigUniqueNonPositive(f.Subs[1], pos, true)
	default:
		for _, s := range f.Subs {
			if bigUniqueNonPositive(s, pos, both) {
				return true
			}
		}
	}
	return false
}
