// Package racer is Engine R (DESIGN.md §3.9): the same generated C16 worlds run
// as free goroutines against the untouched tree in a -race build. Only the race
// detector's reports are judged here; oracles belong to Engine A.
package racer

import (
	"flag"
	"fmt"
	"os"
	"sync"
	"testing"
	"time"

	"gsim/gen"
	"gsim/tasks"
	"gsim/world"
)

var (
	fSeed = flag.Uint64("gsim.seed", 1, "")
	fFrom = flag.Int("gsim.from", 0, "")
	fTo   = flag.Int("gsim.to", 0, "")
	fTier = flag.String("gsim.tier", "quick", "")
	fStat = flag.String("gsim.stat", "", "file for the run statistics")
	fWorld = flag.String("gsim.world", "", "run this world file repeatedly instead of generated worlds")
)

type freeEnv struct {
	wg *sync.WaitGroup
}

func (e freeEnv) Go(name string, f func()) {
	e.wg.Add(1)
	go func() {
		defer e.wg.Done()
		defer func() { recover() }()
		f()
	}()
}
func (e freeEnv) Pre() any                         { return nil }
func (e freeEnv) Post(h any)                       {}
func (e freeEnv) Sync()                            {}
func (e freeEnv) Sleep(ns int64)                   {}
func (e freeEnv) Snooze(int)                       {}
func (e freeEnv) Seq() int64                       { return 0 }
func (e freeEnv) Event(kind, detail string)        {}
func (e freeEnv) Probe(name string)                {}
func (e freeEnv) SetTap(f func(string, any, any))  {}
func (e freeEnv) Stdout() string                   { return "" }
func (e freeEnv) Instrumented() bool               { return false }
func (e freeEnv) Phase(string)                     {}

func TestRace(t *testing.T) {
	if *fTo == 0 {
		t.Skip()
	}
	worlds, tasksRun := 0, 0
	start := time.Now()
	if *fWorld != "" {
		w, err := world.Load(*fWorld)
		if err != nil {
			t.Fatal(err)
		}
		for i := 0; i < 200; i++ {
			if !runWorld(w) {
				fmt.Fprintf(os.Stderr, "GSIM-STUCK replay\n")
				break
			}
		}
		return
	}
	for idx := *fFrom; idx < *fTo; idx++ {
		w := gen.World("C16", *fSeed, idx, *fTier)
		fmt.Fprintf(os.Stderr, "GSIM-WORLD %d\n", idx)
		if !runWorld(w) {
			// goroutines of that world are still blocked inside the library and may hold whatever
			// process-wide state it has: later worlds of this process would only inherit the damage.
			// Deadlocks are Engine A's business; this process stops here.
			fmt.Fprintf(os.Stderr, "GSIM-STUCK %d\n", idx)
			break
		}
		worlds++
		tasksRun += len(w.Tasks)
	}
	if *fStat != "" {
		os.WriteFile(*fStat, []byte(fmt.Sprintf(`{"worlds":%d,"tasks":%d,"wall_s":%.2f}`, worlds, tasksRun, time.Since(start).Seconds())), 0o644)
	}
}

func runWorld(w *world.World) (finished bool) {
	var wg sync.WaitGroup
	done := make(chan struct{})
	for i := range w.Tasks {
		spec := &w.Tasks[i]
		if spec.Kind == "cli" {
			continue
		}
		wg.Add(1)
		go func() {
			defer wg.Done()
			defer func() { recover() }() // panics are Engine A's business
			tasks.Exec(freeEnv{&wg}, spec)
		}()
	}
	go func() { wg.Wait(); close(done) }()
	select {
	case <-done:
		return true
	case <-time.After(20 * time.Second):
		// a stuck world (deadlock under free scheduling) is not judged here
		return false
	}
}
