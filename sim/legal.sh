#!/bin/bash
# usage: legal.sh <n>   -- files the legal change kept in /tmp/legal-<n>-out under seeded/L-<n>/ and runs the quick tier
# of every check against a scratch worktree carrying it. Any exit other than 0 is printed.
export GOFLAGS=-mod=mod GOPROXY=off GOSUMDB=off GOTOOLCHAIN=local
N=$1; OUT=/tmp/legal-$N-out; cd /verif || exit 2
W=/tmp/legalchk-$N-$$
git -C /repo worktree add -q --detach $W HEAD || exit 2
trap "git -C /repo worktree remove --force $W" EXIT
git -C $W apply $OUT/patch.diff || { echo "PATCH DOES NOT APPLY"; exit 2; }
(cd $W && go build ./... && go test -vet=off -count=1 ./... > /tmp/legal-$N.tests.log 2>&1) && echo "build+tests: PASS" || echo "build+tests: FAIL"
mkdir -p seeded/L-$N; cp $OUT/patch.diff seeded/L-$N/; [ -f $OUT/notes.md ] && cp $OUT/notes.md seeded/L-$N/
sim/allchecks.sh $W "${@:2}" | tee seeded/L-$N/allchecks.txt
git -C /repo worktree remove --force /tmp/wL-$N 2>/dev/null
