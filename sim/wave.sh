#!/bin/bash
# usage: wave.sh <wave-number> <PROP> <suffix>   e.g. wave.sh 8 C08 d
# Confirms a sub-agent's seeded change kept in /tmp/seed<w>-<PROP>-out (demo passes without / fails with the change,
# builds, baseline tests pass), runs the quick tier of its property against it under seeds 1 2 3, and files it under
# seeded/S<w>-<PROP><suffix>/ with a meta.json skeleton. Removes the agent's worktree /tmp/w<w>-<PROP>.
export GOFLAGS=-mod=mod GOPROXY=off GOSUMDB=off GOTOOLCHAIN=local
WV=$1; P=$2; SUF=$3
OUT=/tmp/seed$WV-$P-out; ID=S$WV-$P$SUF
cd /verif || exit 2
[ -f $OUT/patch.diff ] || git -C /tmp/w$WV-$P diff > $OUT/patch.diff
demo=$(SEEDPFX=/tmp/seed$WV sim/seeddemo.sh $P 2>&1 | tail -1); echo "$demo"
W=/tmp/chk-$ID-$$
git -C /repo worktree add -q --detach $W HEAD || exit 2
trap "git -C /repo worktree remove --force $W" EXIT
git -C $W apply $OUT/patch.diff || { echo "PATCH DOES NOT APPLY"; exit 2; }
(cd $W && go build ./...) || { echo "DOES NOT BUILD"; exit 2; }
if (cd $W && go test -vet=off -count=1 ./... > /tmp/chk-$ID.tests.log 2>&1); then tests=PASS; else tests=FAIL; fi
echo "baseline tests: $tests"
det=""
for seed in ${SEEDS:-1 2 3}; do
  VERIF_SEED=$seed GSIM_REPO=$W ./check $P quick > /tmp/chk-$ID-$seed.log 2>&1; rc=$?
  sig=$(grep -E '^--- violation' /tmp/chk-$ID-$seed.log | cut -c15-100 | head -3 | tr '\n' ';')
  echo "$ID $P seed=$seed exit=$rc $sig"
  det="$det seed $seed: exit $rc $sig |"
  rm -f replays/$P-seed$seed-w*.json replays/$P-race-seed$seed-w*.json
done
mkdir -p seeded/$ID
cp $OUT/patch.diff seeded/$ID/
for f in demo_test.go demo.sh notes.md; do [ -f $OUT/$f ] && cp $OUT/$f seeded/$ID/; done
python3 - "$ID" "$P" "$demo" "$tests" "$det" "$(git -C /repo rev-parse --short HEAD)" <<'PY'
import json,sys
id_,p,demo,tests,det,base=sys.argv[1:]
m={"id":id_,"breaks_property":p,"change":"TODO","needs_to_manifest":"TODO",
 "author":"independent sub-agent (wave %s) given only the property record, a paragraph about earlier changes to avoid, and its own git worktree of /repo"%id_[1:].split('-')[0],
 "base_commit":base,
 "confirmed":{"patch_applies_to_clean_worktree":True,"go_build":True,"existing_tests_pass_with_change":tests=="PASS","demo":demo,
   "commands":["sim/wave.sh %s %s"%(id_[1:].split('-')[0],p)]},
 "detection":det}
json.dump(m,open("seeded/%s/meta.json"%id_,"w"),indent=1)
PY
git -C /repo worktree remove --force /tmp/w$WV-$P 2>/dev/null
echo "filed seeded/$ID"
