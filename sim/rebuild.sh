#!/bin/bash
# developer helper: re-instrument /repo into /dev/shm/gs1 and rebuild the engine
set -e
export GOFLAGS=-mod=mod GOPROXY=off GOSUMDB=off GOTOOLCHAIN=local
cd /verif/sim
go1.26.8 build -o /verif/bin/gsinstr ./cmd/gsinstr
rm -rf /dev/shm/gs1/gophersat
/verif/bin/gsinstr -src ${SRC:-/repo} -out /dev/shm/gs1/gophersat -rt /verif/sim/rt >/dev/null
cat > /dev/shm/gs1/engine.mod <<EOM
module gsim

go 1.26

require github.com/crillab/gophersat v0.0.0

replace github.com/crillab/gophersat => /dev/shm/gs1/gophersat
EOM
touch /dev/shm/gs1/engine.sum
go1.26.8 test -c -modfile=/dev/shm/gs1/engine.mod -o /dev/shm/gs1/engine.test ./engine
mkdir -p /dev/shm/gs1/out
