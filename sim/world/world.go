// Package world defines the explicit, replayable description of one simulated
// run (DESIGN.md §3.1) and the PRNG every generated choice derives from.
package world

import (
	"encoding/json"
	"os"

	"gsim/ref"
)

// Rng is SplitMix64: tiny, seedable, identical on every Go release.
type Rng struct{ s uint64 }

func NewRng(seed uint64) *Rng { return &Rng{s: seed} }

func Mix(a, b uint64) uint64 {
	r := Rng{s: a ^ (b+0x9e3779b97f4a7c15)*0xbf58476d1ce4e5b9}
	r.Next()
	return r.Next()
}

func (r *Rng) Next() uint64 {
	r.s += 0x9e3779b97f4a7c15
	z := r.s
	z = (z ^ (z >> 30)) * 0xbf58476d1ce4e5b9
	z = (z ^ (z >> 27)) * 0x94d049bb133111eb
	return z ^ (z >> 31)
}

// Intn returns a value in [0,n). n must be > 0.
func (r *Rng) Intn(n int) int { return int(r.Next() % uint64(n)) }

// Range returns a value in [lo,hi].
func (r *Rng) Range(lo, hi int) int { return lo + r.Intn(hi-lo+1) }

func (r *Rng) Float() float64 { return float64(r.Next()>>11) / float64(1<<53) }

func (r *Rng) Bool(p float64) bool { return r.Float() < p }

func (r *Rng) Pick(xs ...int) int { return xs[r.Intn(len(xs))] }

func (r *Rng) PickS(xs ...string) string { return xs[r.Intn(len(xs))] }

func (r *Rng) Perm(n int) []int {
	p := make([]int, n)
	for i := range p {
		p[i] = i
	}
	for i := n - 1; i > 0; i-- {
		j := r.Intn(i + 1)
		p[i], p[j] = p[j], p[i]
	}
	return p
}

// Fork derives an independent stream.
func (r *Rng) Fork() *Rng { return NewRng(r.Next()) }

// ---------------------------------------------------------------------------

// Op is one step of a generated history (C09, C10).
type Op struct {
	Kind string   `json:"kind"`          // solve, append, assume
	Con  *ref.Con `json:"con,omitempty"` // append: the constraint (clause, card or PB)
	Form string   `json:"form,omitempty"` // append: clause | card | pb
	Lits []int    `json:"lits,omitempty"` // assume
}

// Soft is one MaxSAT constraint: Weight 0 = hard.
type Soft struct {
	Con    ref.Con `json:"con"`
	Weight int     `json:"weight"`
	Form   string  `json:"form"` // clause | card | pb
}

// TaskSpec is one use of the library by one caller task.
type TaskSpec struct {
	Kind    string     `json:"kind"`
	N       int        `json:"n,omitempty"`
	Clauses [][]int    `json:"clauses,omitempty"`
	Cons    []ref.Con  `json:"cons,omitempty"`
	Cost    *ref.Cost  `json:"cost,omitempty"`
	Soft    []Soft     `json:"soft,omitempty"`
	Route   string     `json:"route,omitempty"`
	Entry   string     `json:"entry,omitempty"`
	Text    string     `json:"text,omitempty"`
	Text2   string     `json:"text2,omitempty"`
	Lines   []string   `json:"lines,omitempty"`
	Chunks  []int      `json:"chunks,omitempty"`
	EOFWith bool       `json:"eof_with,omitempty"` // last chunk returns (n, io.EOF)
	FailAt  int        `json:"fail_at,omitempty"`  // the reader fails with an I/O error after this many bytes (C08 reader entry)
	Pad     []int      `json:"pad,omitempty"`      // [line index, length]: that certificate line is stretched with blanks to the length
	Cert    bool       `json:"cert,omitempty"`
	Cap     int        `json:"cap,omitempty"`
	Delays  []int64    `json:"delays,omitempty"`
	CP      bool       `json:"cp,omitempty"`
	AMO     bool       `json:"amo,omitempty"`
	Verbose bool       `json:"verbose,omitempty"`
	Stop    bool       `json:"stop,omitempty"`
	Ops     []Op       `json:"ops,omitempty"`
	Argv    []string   `json:"argv,omitempty"`
	Files   []SimFile  `json:"files,omitempty"`
	Extra   []TaskSpec `json:"extra,omitempty"`
	Formula *ref.BF    `json:"formula,omitempty"`
	Note    string     `json:"note,omitempty"`
}

// SimFile is one entry of the simulated file system (C19).
type SimFile struct {
	Path    string `json:"path"`
	Data    string `json:"data"`
	OpenErr string `json:"open_err,omitempty"` // ENOENT, EACCES
	ReadErr int    `json:"read_err,omitempty"` // fail after this many bytes (>0); -1: fail on first read
	Chunks  []int  `json:"chunks,omitempty"`
}

// Sched describes how scheduling decisions are made. Everything is derived
// from Seed by the named strategy, except the explicit prefix Choices.
type Sched struct {
	Seed     uint64  `json:"seed"`
	Strategy string  `json:"strategy"`          // serial | random | pct
	Burst    int     `json:"burst"`             // mean number of hot yields between forced parks (0 = never park at hot yields)
	TickProb float64 `json:"tick_prob,omitempty"` // probability of advancing the fake clock by 3s at a decision
	JumpProb float64 `json:"jump_prob,omitempty"` // probability, at a decision, of jumping the clock to the next sleeper's wake-up although other tasks are runnable
	Choices  []int32 `json:"choices,omitempty"` // explicit (task id) prefix; -1 = use strategy
	Bursts   []int32 `json:"bursts,omitempty"`
	PCTDepth int     `json:"pct_depth,omitempty"`
	LateProb float64 `json:"late_prob,omitempty"` // probability that a goroutine the library starts is not scheduled for a while
	LateMax  int     `json:"late_max,omitempty"`  // ... for at most this many scheduler decisions (unless nothing else can run)
	Collide  bool    `json:"collide,omitempty"`
}

// World is one simulated run.
type World struct {
	Prop     string         `json:"property"`
	Seed     uint64         `json:"seed"`
	Index    int            `json:"index"`
	Tasks    []TaskSpec     `json:"tasks"`
	Knobs    map[string]int `json:"knobs,omitempty"`
	Restarts []int          `json:"restarts,omitempty"` // occurrence indices of mustRestart forced true
	MapSeed  uint64         `json:"map_seed,omitempty"` // 0 = canonical order
	Sched    Sched          `json:"sched"`
	// Expect is filled in replay files: the violation signature and event-log hash.
	Expect *Expect `json:"expect,omitempty"`
}

type Expect struct {
	Signature string `json:"signature"`
	LogHash   string `json:"log_hash,omitempty"`
	Detail    string `json:"detail,omitempty"`
}

func (w *World) Clone() *World {
	b, _ := json.Marshal(w)
	var c World
	json.Unmarshal(b, &c)
	return &c
}

func Load(path string) (*World, error) {
	b, err := os.ReadFile(path)
	if err != nil {
		return nil, err
	}
	var w World
	if err := json.Unmarshal(b, &w); err != nil {
		return nil, err
	}
	return &w, nil
}

func (w *World) Save(path string) error {
	b, err := json.MarshalIndent(w, "", " ")
	if err != nil {
		return err
	}
	return os.WriteFile(path, append(b, '\n'), 0o644)
}
