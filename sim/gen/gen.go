// Package gen derives worlds from one integer. World i of property P under base
// seed S depends only on (S, P, i): which worker runs it is irrelevant.
package gen

import (
	"fmt"
	"sort"
	"strings"

	"gsim/ref"
	"gsim/world"
)

func propNum(p string) uint64 {
	var n uint64
	for _, c := range p {
		n = n*131 + uint64(c)
	}
	return n
}

// World builds world idx of the given property.
func World(prop string, seed uint64, idx int, tier string) *world.World {
	ws := world.Mix(world.Mix(seed, propNum(prop)), uint64(idx))
	r := world.NewRng(ws)
	w := &world.World{Prop: prop, Seed: seed, Index: idx}
	big := tier == "thorough"
	switch prop {
	case "C01":
		genC01(r, w, big, false)
	case "C06":
		genC01(r, w, big, true)
	case "C02":
		genC02(r, w, big)
	case "C03":
		genC03(r, w, big)
	case "C04":
		genC04(r, w, big)
	case "C05":
		genC05(r, w, big)
	case "C07":
		genC07(r, w, big)
	case "C08":
		genC08(r, w, big)
	case "C09":
		genC09(r, w, big)
	case "C10":
		genC10(r, w, big)
	case "C13":
		genC13(r, w, big)
	case "C14":
		genC14(r, w, big)
	case "C16":
		genC16(r, w, big)
	case "C19":
		genC19(r, w, big)
	case "C20":
		genC20(r, w, big)
	default:
		panic("gen: unknown property " + prop)
	}
	switch prop {
	case "C01", "C03", "C05", "C06", "C20":
		// the statistics reporter (Verbose) as one more moving part: its own stream r2 keeps the rest of the world as it was
		r2 := world.NewRng(world.Mix(ws, 0x7665726273))
		if r2.Bool(0.08) {
			for i := range w.Tasks {
				k := w.Tasks[i].Kind
				if k == "cnf" || k == "opt" || k == "count" {
					w.Tasks[i].Verbose = true
				}
			}
			w.Sched.TickProb = []float64{0, 0.02, 0.2}[r2.Intn(3)]
		}
	}
	return w
}

// ---- shared pieces -----------------------------------------------------------

// knobs: a quarter of the worlds keep every shipped constant.
func knobs(r *world.Rng, w *world.World) {
	if r.Bool(0.25) {
		return
	}
	k := map[string]int{}
	if r.Bool(0.8) {
		k["initNbMaxClauses"] = r.Pick(1, 2, 3, 5, 20)
	}
	if r.Bool(0.6) {
		k["incrNbMaxClauses"] = r.Pick(0, 1, 300)
	}
	if r.Bool(0.6) {
		k["incrPostponeNbMax"] = r.Pick(0, 1, 1000)
	}
	if r.Bool(0.7) {
		k["lubyConstant"] = r.Pick(1, 2, 8)
	}
	if len(k) > 0 {
		w.Knobs = k
	}
	if r.Bool(0.5) {
		n := r.Range(1, 8)
		seen := map[int]bool{}
		for i := 0; i < n; i++ {
			x := r.Range(1, 60)
			if r.Bool(0.3) {
				x = r.Range(1, 400)
			}
			if !seen[x] {
				seen[x] = true
				w.Restarts = append(w.Restarts, x)
			}
		}
		sort.Ints(w.Restarts)
	}
}

func schedSingle(r *world.Rng, w *world.World) {
	w.Sched = world.Sched{Seed: r.Next(), Strategy: r.PickS("random", "random", "sticky", "serial", "pct"), Burst: r.Pick(0, 0, 3, 30, 300)}
	if w.Sched.Strategy == "pct" {
		w.Sched.PCTDepth = r.Range(1, 4)
	}
}

func schedMulti(r *world.Rng, w *world.World) {
	w.Sched = world.Sched{Seed: r.Next(), Strategy: r.PickS("random", "random", "sticky", "pct"), Burst: r.Pick(1, 2, 5, 20, 100, 1000)}
	w.Sched.JumpProb = []float64{0, 0, 0.02, 0.1, 0.3}[r.Intn(5)]
	if w.Sched.Strategy == "pct" {
		w.Sched.PCTDepth = r.Range(1, 5)
	}
	if r.Bool(0.3) {
		w.Sched.LateProb = r.Float()
		w.Sched.LateMax = r.Pick(3, 10, 30, 100, 300, 1000)
	}
}

func delays(r *world.Rng) []int64 {
	if r.Bool(0.25) {
		// late for a bounded amount of the others' progress (scheduler decisions), at some receives only
		n := r.Range(2, 8)
		d := make([]int64, n)
		for i := range d {
			if r.Bool(0.35) {
				d[i] = -int64(r.Pick(2, 5, 20, 100, 500))
			}
		}
		return d
	}
	switch r.Intn(5) {
	case 0:
		return nil
	case 1:
		return []int64{-1} // extra yield before every receive
	case 2:
		return []int64{1}
	case 3:
		return []int64{int64(r.Pick(1, 1000, 1_000_000_000)), 0, -1}
	default:
		n := r.Range(1, 4)
		d := make([]int64, n)
		for i := range d {
			d[i] = int64(r.Pick(0, -1, 1, 1_000_000, 3_000_000_000, 3_600_000_000_000))
		}
		return d
	}
}

func capacity(r *world.Rng) int { return r.Pick(0, 0, 1, 2, 8) }

func chunks(r *world.Rng) []int {
	switch r.Intn(7) {
	case 0:
		return nil
	case 1:
		return []int{1}
	case 2:
		return []int{r.Pick(2, 3, 7)}
	case 3:
		return []int{4096}
	case 4:
		return []int{1, 0, 2, 0, 0, 3}
	default:
		n := r.Range(2, 6)
		c := make([]int, n)
		for i := range c {
			c[i] = r.Pick(0, 1, 1, 2, 3, 5, 8, 13, 64)
		}
		return c
	}
}

func lit(r *world.Rng, n int) int {
	v := r.Range(1, n)
	if r.Bool(0.5) {
		return -v
	}
	return v
}

// distinctLits draws k literals over distinct variables.
func distinctLits(r *world.Rng, n, k int) []int {
	if k > n {
		k = n
	}
	p := r.Perm(n)
	out := make([]int, k)
	for i := 0; i < k; i++ {
		v := p[i] + 1
		if r.Bool(0.5) {
			v = -v
		}
		out[i] = v
	}
	return out
}

func randKSAT(r *world.Rng, n, m, kmin, kmax int) [][]int {
	cl := make([][]int, 0, m)
	for i := 0; i < m; i++ {
		k := r.Range(kmin, kmax)
		cl = append(cl, distinctLits(r, n, k))
	}
	return cl
}

func pigeon(p, h int) (int, [][]int) {
	v := func(i, j int) int { return i*h + j + 1 }
	var cl [][]int
	for i := 0; i < p; i++ {
		c := make([]int, h)
		for j := 0; j < h; j++ {
			c[j] = v(i, j)
		}
		cl = append(cl, c)
	}
	for j := 0; j < h; j++ {
		for i := 0; i < p; i++ {
			for k := i + 1; k < p; k++ {
				cl = append(cl, []int{-v(i, j), -v(k, j)})
			}
		}
	}
	return p * h, cl
}

// parity: x1 xor x2 xor ... xor xn = b as CNF (n small).
func parity(vars []int, b bool) [][]int {
	var cl [][]int
	n := len(vars)
	for mask := 0; mask < 1<<uint(n); mask++ {
		ones := 0
		for i := 0; i < n; i++ {
			if mask>>uint(i)&1 == 1 {
				ones++
			}
		}
		// forbid assignments whose parity != b : clause negating that assignment
		if (ones%2 == 1) != b {
			c := make([]int, n)
			for i := 0; i < n; i++ {
				if mask>>uint(i)&1 == 1 {
					c[i] = -vars[i]
				} else {
					c[i] = vars[i]
				}
			}
			cl = append(cl, c)
		}
	}
	return cl
}

// cnfInstance: the C01 mix. Returns declared n and clauses.
func cnfInstance(r *world.Rng, maxN int, odd bool) (int, [][]int) {
	var n int
	var cl [][]int
	switch r.Intn(10) {
	case 0: // pigeonhole
		h := r.Range(2, 3)
		if maxN >= 20 {
			h = r.Range(2, 4)
		}
		p := h + r.Pick(0, 1, 1)
		n, cl = pigeon(p, h)
		if n > maxN {
			n, cl = pigeon(3, 2)
		}
	case 1: // parity constraints chained
		n = r.Range(3, min(maxN, 12))
		for i := 0; i+2 < n; i += 2 {
			cl = append(cl, parity([]int{i + 1, i + 2, i + 3}, r.Bool(0.5))...)
		}
		if r.Bool(0.5) {
			cl = append(cl, parity([]int{1, n}, r.Bool(0.5))...)
		}
	case 2: // implication chain with closing contradiction or not
		n = r.Range(2, min(maxN, 14))
		for i := 1; i < n; i++ {
			cl = append(cl, []int{-i, i + 1})
		}
		cl = append(cl, []int{1})
		if r.Bool(0.5) {
			cl = append(cl, []int{-n})
		}
	case 3: // unit-learning gadgets: (a|b)(a|-b) pairs
		g := r.Range(1, min(maxN/2, 6))
		n = 2 * g
		for i := 0; i < g; i++ {
			a, b := 2*i+1, 2*i+2
			if r.Bool(0.5) {
				a = -a
			}
			cl = append(cl, []int{a, b}, []int{a, -b})
		}
	case 4: // propagation puzzle: units in the middle of the list, chains that only close after several passes
		n, cl = upPuzzle(r, min(maxN, 12))
	default: // uniform k-SAT around the threshold
		n = r.Range(1, maxN)
		if r.Bool(0.7) {
			n = r.Range(min(6, maxN), maxN)
		}
		ratio := 3.0 + 2.2*r.Float()
		m := int(float64(n)*ratio) + r.Range(0, 3)
		if r.Bool(0.15) {
			m = r.Range(0, n)
		}
		k := 3
		if n < 3 {
			k = n
		}
		kmin := k
		if r.Bool(0.4) {
			kmin = min(2, k)
		}
		cl = randKSAT(r, n, m, kmin, max(k, min(n, r.Pick(3, 3, 4, 5))))
	}
	if odd && r.Bool(0.5) {
		cl = oddities(r, n, cl)
	}
	if odd && r.Bool(0.3) {
		n += r.Range(1, 3) // declared but unused variables
	}
	if r.Bool(0.5) {
		p := r.Perm(len(cl))
		c2 := make([][]int, len(cl))
		for i, j := range p {
			c2[i] = cl[j]
		}
		cl = c2
	}
	return n, cl
}

func oddities(r *world.Rng, n int, cl [][]int) [][]int {
	if n == 0 {
		return cl
	}
	for i := 0; i < r.Range(1, 4); i++ {
		switch r.Intn(8) {
		case 0: // empty clause
			if r.Bool(0.3) {
				cl = append(cl, []int{})
			}
		case 1: // unit
			cl = append(cl, []int{lit(r, n)})
		case 2: // conflicting units
			v := r.Range(1, n)
			if r.Bool(0.4) {
				cl = append(cl, []int{v}, []int{-v})
			} else {
				cl = append(cl, []int{v}, []int{v})
			}
		case 3: // duplicate literal
			l := lit(r, n)
			c := []int{l, l}
			if r.Bool(0.6) {
				c = append(c, lit(r, n))
			}
			if r.Bool(0.3) {
				c = append(c, l)
			}
			cl = append(cl, c)
		case 4: // tautology
			v := r.Range(1, n)
			c := []int{v, -v}
			if r.Bool(0.5) {
				c = append(c, lit(r, n))
			}
			cl = append(cl, c)
		case 5: // repeated clause
			if len(cl) > 0 {
				c := cl[r.Intn(len(cl))]
				cl = append(cl, append([]int{}, c...))
			}
		case 6: // binary clauses
			if n >= 2 {
				cl = append(cl, distinctLits(r, n, 2))
			}
		case 7: // long clause
			cl = append(cl, distinctLits(r, n, min(n, r.Range(4, 8))))
		}
	}
	return cl
}

// dimacsText renders a CNF with free layout inside the grammar of DESIGN.md C13.
func dimacsText(r *world.Rng, n int, cl [][]int, lineBased bool) string {
	var b strings.Builder
	ws := func() string {
		if lineBased {
			return r.PickS(" ", " ", "  ", "\t")
		}
		return r.PickS(" ", " ", " ", "  ", "\t", "\n", " \n", "\r\n")
	}
	nl := func() string { return r.PickS("\n", "\n", "\n", "\r\n") }
	for i := 0; i < r.Pick(0, 0, 1, 2); i++ {
		b.WriteString("c " + r.PickS("generated", "p cnf 9 9", "", "0 1 -2", "c") + "\n")
	}
	fmt.Fprintf(&b, "p cnf %d %d%s", n, len(cl), nl())
	lineStart := true
	for i, c := range cl {
		if lineStart && r.Bool(0.08) {
			b.WriteString("c mid " + r.PickS("comment", "1 2 0", "") + "\n")
		}
		for _, l := range c {
			fmt.Fprintf(&b, "%d%s", l, ws())
		}
		b.WriteString("0")
		last := i == len(cl)-1
		if last {
			b.WriteString(r.PickS("\n", "\n", "", " ", "\n\n", " \n", "\r\n"))
		} else if lineBased || r.Bool(0.75) {
			b.WriteString(nl())
			lineStart = true
		} else {
			b.WriteString(r.PickS(" ", "  ", "\t"))
			lineStart = false
		}
	}
	return b.String()
}

// ---- C01 / C06 ------------------------------------------------------------------

func genC01(r *world.Rng, w *world.World, big bool, certAlways bool) {
	if r.Bool(0.0002) {
		// soak: a few instances far beyond any oracle, with the shipped constants - thousands of conflicts,
		// several database reductions, activity rescaling. No reference verdict: a Sat answer is judged by
		// its model, an Unsat answer by its certificate (replayed by the watched-literal reference checker)
		n := r.Range(110, 190)
		t := world.TaskSpec{Kind: "cnf", N: n, Clauses: randKSAT(r, n, int(float64(n)*(4.15+0.2*r.Float())), 3, 3), Route: "slicenb", Cert: true, Cap: 8, Note: "soak"}
		w.Tasks = []world.TaskSpec{t}
		schedSingle(r, w)
		return
	}
	maxN := 14
	if big && r.Bool(0.3) {
		maxN = 16
	}
	validated := r.Bool(0.2)
	if validated {
		maxN = r.Range(18, 45)
	}
	n, cl := cnfInstance(r, maxN, !validated || r.Bool(0.3))
	if r.Bool(0.008) || (big && r.Bool(0.02)) {
		// more than a thousand conflicts: activity rescaling, many restarts and reductions, long certificates
		validated = true
		n = r.Range(55, 75)
		cl = randKSAT(r, n, int(float64(n)*(4.1+0.4*r.Float())), 3, 3)
	}
	t := world.TaskSpec{Kind: "cnf", N: n, Clauses: cl}
	t.Route = r.PickS("slice", "slicenb", "dimacs", "dimacs")
	hasEmpty := false
	for _, c := range cl {
		if len(c) == 0 {
			hasEmpty = true
		}
	}
	_ = hasEmpty
	if t.Route == "dimacs" {
		t.Text = dimacsText(r, n, cl, false)
		t.Chunks = chunks(r)
		t.EOFWith = r.Bool(0.3)
	}
	if t.Route == "slice" {
		// N is inferred: trailing unused variables cannot be expressed on this route
		t.N = 0
	}
	if certAlways || r.Bool(0.35) || (validated && r.Bool(0.5)) {
		t.Cert = true
		t.Cap = capacity(r)
		t.Delays = delays(r)
	}
	w.Tasks = []world.TaskSpec{t}
	knobs(r, w)
	if validated && r.Bool(0.6) {
		// many conflicts and a tiny learned-clause limit: reductions happen again and again while clauses are locked
		if w.Knobs == nil {
			w.Knobs = map[string]int{}
		}
		w.Knobs["initNbMaxClauses"] = r.Pick(1, 2, 3, 5, 10)
		w.Knobs["incrNbMaxClauses"] = r.Pick(0, 1, 3)
		w.Knobs["incrPostponeNbMax"] = r.Pick(0, 1, 10)
	}
	schedSingle(r, w)
}

// ---- constraints -----------------------------------------------------------------

// randCon: clause, cardinality or PB constraint with each variable at most once.
func randCon(r *world.Rng, n int, form string, W int) ref.Con {
	k := r.Range(1, min(n, 6))
	l := distinctLits(r, n, k)
	switch form {
	case "clause":
		return ref.Con{Lits: l, K: 1}
	case "card":
		c := ref.Con{Lits: l, Op: r.PickS(">=", ">=", "<=", "=")}
		c.K = r.Range(-1, len(l)+1)
		if r.Bool(0.7) {
			c.K = r.Range(1, max(1, len(l)-1))
		}
		if c.Op == "=" && r.Bool(0.5) {
			c.K = 1
		}
		return c
	default: // pb
		c := ref.Con{Lits: l, Op: r.PickS(">=", ">=", "<=", "=")}
		c.Coefs = make([]int, len(l))
		sum, neg := 0, 0
		for i := range c.Coefs {
			x := r.Range(1, W)
			if r.Bool(0.25) {
				x = -x
			}
			if r.Bool(0.05) {
				x = 0
			}
			c.Coefs[i] = x
			if x > 0 {
				sum += x
			} else {
				neg += x
			}
		}
		c.K = r.Range(neg-1, sum+1)
		if r.Bool(0.6) && sum+neg > 1 {
			c.K = r.Range(neg+1, max(neg+1, sum-1))
		}
		return c
	}
}

func consInstance(r *world.Rng, maxN int, forms []string, W int) (int, []ref.Con) {
	n := r.Range(1, maxN)
	if r.Bool(0.7) {
		n = r.Range(min(4, maxN), maxN)
	}
	m := r.Range(0, 2*n)
	if r.Bool(0.5) {
		m = r.Range(n/2, n+n/2+1)
	}
	var cs []ref.Con
	for i := 0; i < m; i++ {
		cs = append(cs, randCon(r, n, forms[r.Intn(len(forms))], W))
	}
	if r.Bool(0.3) { // units that trigger parse-time simplification
		for i := 0; i < r.Range(1, 3); i++ {
			cs = append(cs, ref.Con{Lits: []int{lit(r, n)}, K: 1})
		}
	}
	return n, cs
}

func genC02(r *world.Rng, w *world.World, big bool) {
	maxN := 12
	route := r.PickS("card", "pb", "pb")
	forms := []string{"clause", "card"}
	if route == "pb" {
		forms = []string{"clause", "card", "pb", "pb"}
	}
	n, cs := consInstance(r, maxN, forms, r.Pick(3, 5, 9))
	if r.Bool(0.15) { // pigeonhole as cardinality constraints
		h := r.Range(2, 3)
		p := h + r.Pick(0, 1)
		n = p * h
		cs = nil
		for i := 0; i < p; i++ {
			var l []int
			for j := 0; j < h; j++ {
				l = append(l, i*h+j+1)
			}
			cs = append(cs, ref.Con{Lits: l, K: 1})
		}
		for j := 0; j < h; j++ {
			var l []int
			for i := 0; i < p; i++ {
				l = append(l, i*h+j+1)
			}
			cs = append(cs, ref.Con{Lits: l, Op: "<=", K: 1})
		}
	}
	t := world.TaskSpec{Kind: "pb", N: n, Cons: cs, Route: route, Entry: "solve"}
	w.Tasks = []world.TaskSpec{t}
	knobs(r, w)
	schedSingle(r, w)
}

func randCost(r *world.Rng, n int, W int) *ref.Cost {
	k := r.Range(1, n)
	c := &ref.Cost{Lits: distinctLits(r, n, k)}
	if r.Bool(0.75) {
		c.Coefs = make([]int, k)
		for i := range c.Coefs {
			c.Coefs[i] = r.Range(0, W)
			if r.Bool(0.6) {
				c.Coefs[i] = r.Range(1, W)
			}
		}
	}
	return c
}

// opbText renders constraints (and a cost function) as OPB.
func opbText(r *world.Rng, n int, cs []ref.Con, cost *ref.Cost) string {
	var b strings.Builder
	if r.Bool(0.6) {
		fmt.Fprintf(&b, "* #variable= %d #constraint= %d\n", n, len(cs))
	}
	if r.Bool(0.3) {
		b.WriteString("* a comment\n")
	}
	term := func(w, l int, first bool) string {
		v := l
		neg := ""
		if v < 0 {
			v = -v
			neg = "~"
		}
		if w == 1 && r.Bool(0.15) {
			return fmt.Sprintf("%sx%d", neg, v)
		}
		sign := ""
		if w >= 0 && (!first || r.Bool(0.5)) {
			sign = "+"
		}
		return fmt.Sprintf("%s%d %sx%d", sign, w, neg, v)
	}
	sp := func() string { return r.PickS(" ", " ", "  ", "\t") }
	if cost != nil {
		b.WriteString("min:")
		for i, l := range cost.Lits {
			w := 1
			if cost.Coefs != nil {
				w = cost.Coefs[i]
			}
			b.WriteString(sp() + term(w, l, i == 0))
		}
		b.WriteString(sp() + ";\n")
	}
	for _, c := range cs {
		if r.Bool(0.05) {
			b.WriteString("* mid comment\n")
		}
		for i, l := range c.Lits {
			w := 1
			if c.Coefs != nil {
				w = c.Coefs[i]
			}
			if i > 0 {
				b.WriteString(sp())
			}
			b.WriteString(term(w, l, i == 0))
		}
		op := c.Op
		if op == "" {
			op = ">="
		}
		fmt.Fprintf(&b, "%s%s%s%d%s;\n", sp(), op, sp(), c.K, sp())
	}
	s := b.String()
	if r.Bool(0.1) {
		s = strings.TrimSuffix(s, "\n")
	}
	return s
}

// covering: weighted set-cover style optimisation - every variable costs something, every
// constraint asks for some of a few variables: many improvement steps, cost literals that get fixed
// at top level between two steps.
func covering(r *world.Rng, maxN int) (int, []ref.Con, *ref.Cost) {
	n := r.Range(5, maxN)
	m := r.Range(n/2+1, n+3)
	var cs []ref.Con
	for i := 0; i < m; i++ {
		k := r.Range(2, min(n, 4))
		l := distinctLits(r, n, k)
		for j := range l {
			if l[j] < 0 && r.Bool(0.85) {
				l[j] = -l[j]
			}
		}
		c := ref.Con{Lits: l, K: 1}
		if r.Bool(0.25) && k >= 3 {
			c.K = 2
		}
		cs = append(cs, c)
	}
	cs = append(cs, ref.Con{Lits: []int{n, r.Range(1, n-1)}, K: 1}) // every variable the cost mentions must exist in the problem
	cost := &ref.Cost{Lits: make([]int, n), Coefs: make([]int, n)}
	for v := 1; v <= n; v++ {
		cost.Lits[v-1] = v
		cost.Coefs[v-1] = r.Range(1, 12)
	}
	return n, cs, cost
}

// plantedLowCost: random clauses around a planted assignment that makes every cost literal (or all
// but a few) false: the optimum is 0 or small, and a search that lands elsewhere first must walk the
// last steps down (cost 2, 1, 0) one by one.
func plantedLowCost(r *world.Rng, maxN int) (int, []ref.Con, *ref.Cost) {
	n := r.Range(7, maxN)
	planted := make([]bool, n+1)
	for v := 1; v <= n; v++ {
		planted[v] = r.Bool(0.5)
	}
	k := r.Range(4, min(n, 7))
	cost := &ref.Cost{Lits: distinctLits(r, n, k)}
	for i, l := range cost.Lits { // false under the planted assignment
		v := l
		if v < 0 {
			v = -v
		}
		if planted[v] {
			cost.Lits[i] = -v
		} else {
			cost.Lits[i] = v
		}
	}
	if r.Bool(0.5) {
		cost.Coefs = make([]int, k)
		for i := range cost.Coefs {
			cost.Coefs[i] = r.Pick(1, 1, 1, 2, 3)
		}
	}
	if r.Bool(0.3) { // one cost literal true in the planted assignment: the optimum may be its weight
		cost.Lits[r.Intn(k)] *= -1
	}
	var cs []ref.Con
	m := int(float64(n) * (3.0 + 1.5*r.Float()))
	for len(cs) < m {
		l := distinctLits(r, n, r.Pick(2, 3, 3, 3))
		ok := false
		for _, x := range l {
			if (x > 0) == planted[abs(x)] {
				ok = true
			}
		}
		if ok {
			cs = append(cs, ref.Con{Lits: l, K: 1})
		}
	}
	return n, cs, cost
}

// spreadCost: 4-8 variables, short clauses, a cost function over 3-5 literals whose weights roughly double
// (or are distinct and spread), and often a variable fixed by a pair of clauses (a|b)(a|-b).
func spreadCost(r *world.Rng) (int, []ref.Con, *ref.Cost) {
	n := r.Range(4, 8)
	var cs []ref.Con
	m := r.Range(n, 2*n+2)
	for i := 0; i < m; i++ {
		k := r.Pick(2, 2, 3, 3, 3)
		cs = append(cs, ref.Con{Lits: distinctLits(r, n, k), K: 1, Op: ">="})
	}
	if r.Bool(0.6) {
		a, b := lit(r, n), lit(r, n)
		if abs(a) != abs(b) {
			cs = append(cs, ref.Con{Lits: []int{a, b}, K: 1, Op: ">="}, ref.Con{Lits: []int{a, -b}, K: 1, Op: ">="})
		}
	}
	cs = append(cs, topVarClause(r, n))
	k := r.Range(3, min(n, 5))
	cost := &ref.Cost{Lits: distinctLits(r, n, k), Coefs: make([]int, k)}
	for i := range cost.Lits {
		if cost.Lits[i] < 0 && r.Bool(0.7) {
			cost.Lits[i] = -cost.Lits[i]
		}
	}
	if r.Bool(0.6) {
		w := 1
		for _, i := range r.Perm(k) {
			cost.Coefs[i] = w + r.Pick(0, 0, 0, 1)
			w *= 2
		}
	} else {
		for i := range cost.Coefs {
			cost.Coefs[i] = r.Range(1, 12)
		}
	}
	return n, cs, cost
}

func genC03(r *world.Rng, w *world.World, big bool) {
	if r.Bool(0.06) {
		n, cs, cost := plantedLowCost(r, 14)
		cs = append(cs, topVarClause(r, n))
		route := r.PickS("pb", "cnf", "opb")
		for i := range cs {
			cs[i].Op = ">="
		}
		t := world.TaskSpec{Kind: "opt", N: n, Cons: cs, Cost: cost, Route: route, Entry: "all", Cap: capacity(r), Delays: delays(r)}
		if route == "opb" {
			t.Text = opbText(r, n, cs, cost)
			t.Chunks = chunks(r)
		}
		w.Tasks = []world.TaskSpec{t}
		knobs(r, w)
		schedMulti(r, w)
		return
	}
	if r.Bool(0.15) {
		// spread-out cost weights over few literals, small clausal problem in which some cost variable is fixed
		// at top level: the cost bound appended after each step splits into heavy literals (forced) and light
		// ones (seeded change S8-C03d turned the light remainder into a spurious clause)
		n, cs, cost := spreadCost(r)
		route := r.PickS("pb", "cnf", "opb")
		t := world.TaskSpec{Kind: "opt", N: n, Cons: cs, Cost: cost, Route: route, Entry: "all", Cap: capacity(r), Delays: delays(r)}
		if route == "opb" {
			t.Text = opbText(r, n, cs, cost)
			t.Chunks = chunks(r)
		}
		w.Tasks = []world.TaskSpec{t}
		knobs(r, w)
		schedMulti(r, w)
		return
	}
	if r.Bool(0.25) {
		n, cs, cost := covering(r, 10)
		route := r.PickS("pb", "card", "opb")
		for i := range cs {
			cs[i].Op = ">="
		}
		t := world.TaskSpec{Kind: "opt", N: n, Cons: cs, Cost: cost, Route: route, Entry: "all", Cap: capacity(r), Delays: delays(r)}
		if route == "opb" {
			t.Text = opbText(r, n, cs, cost)
			t.Chunks = chunks(r)
		}
		w.Tasks = []world.TaskSpec{t}
		knobs(r, w)
		schedMulti(r, w)
		return
	}
	route := r.PickS("pb", "pb", "card", "opb", "opb", "cnf")
	forms := []string{"clause", "card", "pb"}
	switch route {
	case "card":
		forms = []string{"clause", "card"}
	case "cnf":
		forms = []string{"clause"}
	}
	n, cs := consInstance(r, 11, forms, r.Pick(3, 6))
	if route == "opb" {
		// OPB has no "<=": the text generator only emits >= and =
		for i := range cs {
			if cs[i].Op == "<=" {
				cs[i].Op = ">="
			}
		}
	}
	if route == "cnf" {
		var keep []ref.Con
		for _, c := range cs {
			if len(c.Lits) >= 1 {
				keep = append(keep, c)
			}
		}
		cs = keep
	}
	if route != "opb" {
		// the cost function may only mention variables the problem has: make the
		// variable count unambiguous by mentioning the top variable in a non-trivial clause
		cs = append(cs, topVarClause(r, n))
	}
	t := world.TaskSpec{Kind: "opt", N: n, Cons: cs, Route: route, Entry: "all", Cap: capacity(r), Delays: delays(r)}
	if !r.Bool(0.1) {
		t.Cost = randCost(r, n, r.Pick(1, 4, 9))
		if route == "opb" && r.Bool(0.3) && w.Prop == "C03" {
			// negative coefficients are only expressible through the OPB syntax
			if t.Cost.Coefs == nil {
				t.Cost.Coefs = make([]int, len(t.Cost.Lits))
				for i := range t.Cost.Coefs {
					t.Cost.Coefs[i] = 1
				}
			}
			for i := range t.Cost.Coefs {
				if r.Bool(0.4) {
					t.Cost.Coefs[i] = -r.Range(1, 5)
				}
			}
		}
	}
	if route == "opb" {
		t.Text = opbText(r, n, cs, t.Cost)
		t.Chunks = chunks(r)
	}
	t.Stop = r.Bool(0.1)
	w.Tasks = []world.TaskSpec{t}
	knobs(r, w)
	schedMulti(r, w)
}

// ---- C05 --------------------------------------------------------------------------

func genC05(r *world.Rng, w *world.World, big bool) {
	t := world.TaskSpec{Kind: "count", Entry: "all", Cap: capacity(r), Delays: delays(r)}
	switch r.Intn(6) {
	case 0, 1, 2: // CNF with an explicit variable count
		n, cl := cnfInstance(r, 10, true)
		var keep [][]int
		for _, c := range cl {
			keep = append(keep, c)
		}
		t.N, t.Clauses = n, keep
		t.Route = r.PickS("slicenb", "dimacs")
		if t.Route == "dimacs" {
			t.Text = dimacsText(r, n, keep, false)
			t.Chunks = chunks(r)
		}
		if r.Bool(0.15) { // no constraint at all / almost none
			t.Clauses = [][]int{}
			t.N = r.Range(0, 6)
			t.Route = "slicenb"
		}
		if len(t.Clauses) < t.N && t.N > 8 {
			// nearly unconstrained: thousands of models, one enumeration step each; keep the world cheap
			t.N = 8
			var keep2 [][]int
			for _, c := range t.Clauses {
				ok := true
				for _, l := range c {
					if l > 8 || l < -8 {
						ok = false
					}
				}
				if ok {
					keep2 = append(keep2, c)
				}
			}
			t.Clauses = keep2
			if t.Route == "dimacs" {
				t.Text = dimacsText(r, t.N, t.Clauses, false)
			}
		}
		if r.Bool(0.12) { // larger, near the threshold: few models, real search between them
			t.N = r.Range(12, 16)
			t.Clauses = randKSAT(r, t.N, int(float64(t.N)*(3.9+0.6*r.Float())), 3, 3)
			t.Route = "slicenb"
			t.Text = ""
		}
		if r.Bool(0.1) { // fully decided at parse time
			t.N = r.Range(1, 6)
			t.Clauses = [][]int{}
			for v := 1; v <= t.N; v++ {
				if r.Bool(0.8) {
					t.Clauses = append(t.Clauses, []int{v * r.Pick(1, -1)})
				}
			}
			t.Route = "slicenb"
		}
	default: // cardinality / PB; every variable must be visible to the library
		route := r.PickS("card", "pb")
		forms := []string{"clause", "card"}
		if route == "pb" {
			forms = []string{"clause", "card", "pb"}
		}
		n, cs := consInstance(r, 9, forms, 4)
		// make the variable count unambiguous: mention the top variable in a non-trivial clause
		cs = append(cs, topVarClause(r, n))
		t.N, t.Cons, t.Route = n, cs, route
	}
	w.Tasks = []world.TaskSpec{t}
	knobs(r, w)
	schedMulti(r, w)
}

// topVarClause mentions variable n in a clause that is neither unit nor trivially true.
func topVarClause(r *world.Rng, n int) ref.Con {
	if n == 1 {
		return ref.Con{Lits: []int{1}, K: 1}
	}
	o := r.Range(1, n-1)
	return ref.Con{Lits: []int{n * r.Pick(1, -1), o * r.Pick(1, -1)}, K: 1}
}

// ---- C04 --------------------------------------------------------------------------

func wcnfText(r *world.Rng, n int, soft []world.Soft, top int) string {
	var b strings.Builder
	if r.Bool(0.4) {
		b.WriteString("c generated wcnf\n")
	}
	if top > 0 {
		fmt.Fprintf(&b, "p wcnf %d %d %d\n", n, len(soft), top)
	} else {
		fmt.Fprintf(&b, "p wcnf %d %d\n", n, len(soft))
	}
	for _, s := range soft {
		if r.Bool(0.06) {
			b.WriteString("c mid\n")
		}
		wgt := s.Weight
		if wgt == 0 {
			wgt = top + r.Pick(0, 0, 1, 5)
		}
		fmt.Fprintf(&b, "%d", wgt)
		for _, l := range s.Con.Lits {
			fmt.Fprintf(&b, "%s%d", r.PickS(" ", " ", "  ", "\t"), l)
		}
		b.WriteString(" 0\n")
	}
	s := b.String()
	if r.Bool(0.1) {
		s = strings.TrimSuffix(s, "\n")
	}
	return s
}

func genC04(r *world.Rng, w *world.World, big bool) { genC04x(r, w, big, 0.06) }

// genC04x: overProb is the share of over-constrained instances (dozens of short soft clauses over few
// variables, no hard clause): the optimum is far from 0 and the optimisation goes through ten and more
// improvement steps, so result streams are long (seeded change S8-C20e needed nine results in flight).
func genC04x(r *world.Rng, w *world.World, big bool, overProb float64) {
	t := world.TaskSpec{Kind: "maxsat"}
	n := r.Range(1, 9)
	m := r.Range(1, 12)
	if r.Bool(0.25) { // many soft constraints with spread-out weights: several improvement steps
		n = r.Range(5, 10)
		m = r.Range(10, 18)
	}
	wcnf := r.Bool(0.45)
	over := r.Bool(overProb)
	if over {
		wcnf = true
		n = r.Range(10, 13)
		m = r.Range(40, 80)
	}
	var soft []world.Soft
	var poolVec []int
	for i := 0; i < m; i++ {
		form := "clause"
		if !wcnf {
			form = r.PickS("clause", "clause", "card", "pb")
		}
		var c ref.Con
		switch form {
		case "clause":
			c = ref.Con{Lits: distinctLits(r, n, r.Range(1, min(n, 4))), K: 1}
			if over {
				c = ref.Con{Lits: distinctLits(r, n, r.Pick(2, 2, 2, 3)), K: 1}
			} else if r.Bool(0.08) {
				// a clause may write a literal more than once: it still is the same clause
				x := c.Lits[r.Intn(len(c.Lits))]
				c.Lits = append(c.Lits, x)
				if r.Bool(0.4) {
					c.Lits = append(c.Lits, x)
				}
				if r.Bool(0.5) {
					c.Lits[0], c.Lits[len(c.Lits)-1] = c.Lits[len(c.Lits)-1], c.Lits[0]
				}
			} else if r.Bool(0.05) {
				// ... or a variable in both polarities: a clause that every assignment satisfies
				x := c.Lits[r.Intn(len(c.Lits))]
				c.Lits = append(c.Lits, -x)
				if r.Bool(0.5) {
					c.Lits[0], c.Lits[len(c.Lits)-1] = c.Lits[len(c.Lits)-1], c.Lits[0]
				}
			}
			if wcnf && r.Bool(0.03) {
				c.Lits = []int{} // empty soft clause: always violated
			}
		case "card":
			l := distinctLits(r, n, r.Range(2, max(2, min(n, 5))))
			c = ref.Con{Lits: l, K: r.Range(2, max(2, len(l)))}
			if len(l) < 2 {
				form = "clause"
				c.K = 1
			}
		case "pb":
			l := distinctLits(r, n, r.Range(1, min(n, 5)))
			c = ref.Con{Lits: l, Coefs: make([]int, len(l))}
			sum := 0
			for j := range c.Coefs {
				c.Coefs[j] = r.Range(1, 4)
				sum += c.Coefs[j]
			}
			if poolVec != nil && r.Bool(0.6) { // same coefficient vector as another constraint
				l = distinctLits(r, n, len(poolVec))
				if len(l) == len(poolVec) {
					c = ref.Con{Lits: l, Coefs: append([]int{}, poolVec...)}
					sum = 0
					for _, x := range poolVec {
						sum += x
					}
				}
			} else if poolVec == nil && len(l) >= 2 {
				poolVec = append([]int{}, c.Coefs...)
			}
			c.K = r.Range(1, sum)
			if r.Bool(0.2) {
				// coefficients of either sign (a caller writing "2a - 3b >= -1"), and now and then a degree that
				// makes the constraint trivially true or trivially false
				lo, hi := 0, 0
				for j := range c.Coefs {
					if r.Bool(0.4) {
						c.Coefs[j] = -c.Coefs[j]
					}
					if c.Coefs[j] < 0 {
						lo += c.Coefs[j]
					} else {
						hi += c.Coefs[j]
					}
				}
				c.K = r.Range(lo+1, max(hi, lo+1))
				if r.Bool(0.2) {
					c.K = r.Pick(lo, lo-1, hi+1)
				}
			}
		}
		wgt := 0
		if r.Bool(0.6) {
			wgt = r.Pick(1, 1, 2, 3, 5, 10)
			if m >= 10 {
				wgt = r.Range(1, 12)
			}
		} else if m >= 10 && r.Bool(0.6) {
			wgt = r.Range(1, 12)
		}
		if over {
			wgt = r.Range(1, 9)
		}
		soft = append(soft, world.Soft{Con: c, Weight: wgt, Form: form})
	}
	t.N = n
	t.Soft = soft
	if wcnf {
		t.Route = "wcnf"
		sum := 0
		allSoft := true
		for _, s := range soft {
			sum += s.Weight
			if s.Weight == 0 {
				allSoft = false
			}
		}
		top := sum + r.Pick(1, 1, 2, 100)
		if r.Bool(0.25) {
			// "any top weight": top only says which clauses are hard, it need not exceed the sum of the
			// soft weights (the optimum may well be at or above it)
			maxSoft := 0
			for _, s := range soft {
				if s.Weight > maxSoft {
					maxSoft = s.Weight
				}
			}
			top = maxSoft + r.Pick(1, 1, 2)
		}
		if allSoft && r.Bool(0.5) {
			top = 0 // no top weight: every clause is soft
		}
		t.N = n + r.Pick(0, 0, 0, 1, 3) // declared count >= highest variable used
		t.Text = wcnfText(r, t.N, soft, top)
		t.Chunks = chunks(r)
		t.Entry = r.PickS("wcnf-nil", "wcnf-chan", "wcnf-chan")
		t.Cap = capacity(r)
		t.Delays = delays(r)
	} else {
		t.Route = "api"
		t.Entry = "solve"
		t.Stop = r.Bool(0.5) // for API worlds: the caller shares equal coefficient slices between constraints
	}
	w.Tasks = []world.TaskSpec{t}
	w.MapSeed = r.Next() | 1
	if r.Bool(0.1) {
		w.MapSeed = 0
	}
	knobs(r, w)
	schedMulti(r, w)
}

// ---- C14 --------------------------------------------------------------------------

func genC14(r *world.Rng, w *world.World, big bool) {
	if r.Bool(0.15) {
		// clausal problems with enough conflicts for the cutting-planes machinery to cycle many times on one
		// solver: Luby restarts, reduceLearnedPB / unwatchPB while learned constraints are still reasons of
		// trail literals, learned constraints built after a reduction (seeded change S8-C14d recycled the
		// storage of removed constraints). Judged by the reference DPLL and by evaluating the model.
		n, cl := cnfInstance(r, r.Range(18, 45), false)
		if r.Bool(0.06) || (big && r.Bool(0.1)) {
			n = r.Range(50, 70)
			cl = randKSAT(r, n, int(float64(n)*(4.1+0.4*r.Float())), 3, 3)
		}
		t := world.TaskSpec{Kind: "cnf", N: n, Clauses: cl, Route: r.PickS("slice", "slicenb"), CP: true}
		if t.Route == "slice" {
			t.N = 0
		}
		w.Tasks = []world.TaskSpec{t}
		knobs(r, w)
		if r.Bool(0.7) {
			if w.Knobs == nil {
				w.Knobs = map[string]int{}
			}
			w.Knobs["initNbMaxClauses"] = r.Pick(1, 2, 3, 5, 10, 30)
			w.Knobs["incrNbMaxClauses"] = r.Pick(0, 1, 3)
			w.Knobs["incrPostponeNbMax"] = r.Pick(0, 1, 10)
			w.Knobs["lubyConstant"] = r.Pick(1, 2, 8, 32)
		}
		schedSingle(r, w)
		return
	}
	route := r.PickS("pb", "pb", "card", "cnf", "opb")
	forms := []string{"clause", "card", "pb", "pb"}
	switch route {
	case "card":
		forms = []string{"clause", "card", "card"}
	case "cnf":
		forms = []string{"clause"}
	}
	n, cs := consInstance(r, 11, forms, r.Pick(3, 6))
	if r.Bool(0.2) && route != "cnf" { // pigeonhole: where cutting planes matters
		h := r.Range(2, 3)
		p := h + 1
		n = p * h
		cs = nil
		for i := 0; i < p; i++ {
			var l []int
			for j := 0; j < h; j++ {
				l = append(l, i*h+j+1)
			}
			cs = append(cs, ref.Con{Lits: l, K: 1})
		}
		for j := 0; j < h; j++ {
			for i := 0; i < p; i++ {
				for k := i + 1; k < p; k++ {
					cs = append(cs, ref.Con{Lits: []int{-(i*h + j + 1), -(k*h + j + 1)}, K: 1})
				}
			}
		}
	}
	if route == "opb" {
		for i := range cs {
			if cs[i].Op == "<=" {
				cs[i].Op = ">="
			}
		}
	}
	t := world.TaskSpec{N: n, Cons: cs, Route: route, AMO: r.Bool(0.4)}
	if r.Bool(0.3) { // binary-rich clausal problem with at-most-one detection on
		gn, gcl := oneHotGroups(r, 12)
		t.N, t.Cons = gn, nil
		for _, c := range gcl {
			t.Cons = append(t.Cons, ref.Con{Lits: c, K: 1})
		}
		t.AMO = true
		t.Route = r.PickS("cnf", "cnf", "pb", "card")
		route = t.Route
		n = gn
	}
	if r.Bool(0.5) {
		t.Kind = "pb"
		t.Entry = "both"
	} else {
		t.Kind = "opt"
		t.Entry = "cp-both"
		t.Cost = randCost(r, n, r.Pick(1, 4))
		if route != "opb" {
			t.Cons = append(t.Cons, topVarClause(r, n))
		}
	}
	if route == "opb" {
		t.Text = opbText(r, n, cs, t.Cost)
	}
	w.Tasks = []world.TaskSpec{t}
	knobs(r, w)
	schedSingle(r, w)
}

// ---- C20 --------------------------------------------------------------------------

func genC20(r *world.Rng, w *world.World, big bool) {
	var t world.TaskSpec
	switch r.Intn(3) {
	case 0: // solver.Optimal with a result channel
		route := r.PickS("pb", "card", "opb")
		forms := []string{"clause", "card", "pb"}
		if route == "card" {
			forms = []string{"clause", "card"}
		}
		n, cs := consInstance(r, 10, forms, 4)
		if route == "opb" {
			for i := range cs {
				if cs[i].Op == "<=" {
					cs[i].Op = ">="
				}
			}
		}
		if route != "opb" {
			cs = append(cs, topVarClause(r, n))
		}
		t = world.TaskSpec{Kind: "opt", N: n, Cons: cs, Route: route, Entry: "optimal-chan"}
		if r.Bool(0.6) {
			cn, ccs, ccost := covering(r, 10)
			for i := range ccs {
				ccs[i].Op = ">="
			}
			t.N, t.Cons, t.Cost = cn, ccs, ccost
			n, cs = cn, ccs
		} else if !r.Bool(0.1) {
			// long streams: many cost levels
			t.Cost = &ref.Cost{Lits: distinctLits(r, n, n), Coefs: make([]int, n)}
			for i := range t.Cost.Coefs {
				t.Cost.Coefs[i] = r.Range(1, 6)
			}
			if r.Bool(0.3) {
				t.Cost = randCost(r, n, 5)
			}
		}
		if route == "opb" {
			t.Text = opbText(r, n, cs, t.Cost)
		}
	case 1: // maxsat forwarding pipeline
		save := world.World{}
		genC04x(r, &save, big, 0.25)
		for save.Tasks[0].Route != "wcnf" {
			save = world.World{}
			genC04x(r, &save, big, 0.25)
		}
		t = save.Tasks[0]
		t.Entry = "wcnf-chan"
		if len(t.Soft) >= 40 && r.Bool(0.6) {
			// long stream expected: a consumer that is far behind from the start (everything is produced while it
			// sleeps) or falls far behind in the middle, on a channel that cannot absorb the backlog
			w.Tasks = []world.TaskSpec{t}
			t.Cap = r.Pick(0, 0, 1, 2)
			if r.Bool(0.5) {
				t.Delays = []int64{3_600_000_000_000}
			} else {
				t.Delays = []int64{0, 0, int64(r.Pick(-2000, -20000, 3_600_000_000_000)), 0, 0, 0, 0, 0, 0, 0, 0, 0, 0, 0, 0, 0}
			}
			t.Stop = false
			w.Tasks = []world.TaskSpec{t}
			knobs(r, w)
			schedMulti(r, w)
			w.Sched.Burst = r.Pick(1, 3, 10, 50, 300, 2000)
			return
		}
	case 2: // enumeration
		save := world.World{}
		genC05(r, &save, big)
		t = save.Tasks[0]
		t.Entry = "enum-chan"
	}
	t.Cap = capacity(r)
	t.Delays = delays(r)
	if t.Kind == "opt" && r.Bool(0.5) {
		// a buffered channel and a consumer that falls behind for a while at some receives, then catches up
		t.Cap = r.Pick(1, 1, 2, 3)
		n := r.Range(3, 8)
		t.Delays = make([]int64, n)
		for i := range t.Delays {
			if r.Bool(0.4) {
				t.Delays[i] = -int64(r.Pick(3, 10, 40, 150, 600))
			}
		}
	}
	t.Stop = t.Kind == "opt" && r.Bool(0.15)
	w.Tasks = []world.TaskSpec{t}
	knobs(r, w)
	schedMulti(r, w)
	w.Sched.Burst = r.Pick(1, 3, 10, 50, 300, 2000)
}

// ---- C16 --------------------------------------------------------------------------

func genC16(r *world.Rng, w *world.World, big bool) {
	k := r.Range(2, 4)
	if big {
		k = r.Range(2, 6)
	}
	// a quarter of the worlds are homogeneous: every task exercises the same feature, because state
	// shared by mistake is usually shared inside one feature (a table, a pool, a scratch buffer of one
	// package) and only collides when that feature runs twice at the same time
	same, sameSub := -1, -1
	if r.Bool(0.25) {
		same, sameSub = r.Pick(0, 4, 5, 6, 7, 8, 9, 9, 9, 9), r.Intn(4)
	}
	for i := 0; i < k; i++ {
		var t world.TaskSpec
		kind, sub9 := r.Intn(10), r.Intn(4)
		if same >= 0 {
			kind, sub9 = same, sameSub
		}
		switch kind {
		case 0, 1, 2, 3: // CNF solving, sized so that conflict analysis runs many times
			n := r.Range(15, 40)
			m := int(float64(n) * (3.9 + 0.8*r.Float()))
			t = world.TaskSpec{Kind: "cnf", N: n, Clauses: randKSAT(r, n, m, 3, 3), Route: "slicenb"}
			if r.Bool(0.3) {
				t.Cert, t.Cap, t.Delays = true, capacity(r), delays(r)
			} else if r.Bool(0.3) {
				t.CP = true // cutting-planes strategy on a purely clausal problem (sound there)
			}
		case 4: // pigeonhole
			h := r.Range(3, 5)
			n, cl := pigeon(h+1, h)
			t = world.TaskSpec{Kind: "cnf", N: n, Clauses: cl, Route: "slicenb"}
		case 5: // optimisation
			sub := world.World{Prop: "C16"}
			genC03(r, &sub, big)
			t = sub.Tasks[0]
			t.Entry = r.PickS("optimal-nil", "optimal-chan", "minimize")
		case 6: // counting
			sub := world.World{}
			genC05(r, &sub, big)
			t = sub.Tasks[0]
			t.Entry = r.PickS("count", "enum-chan")
		case 7: // maxsat
			sub := world.World{}
			genC04(r, &sub, big)
			t = sub.Tasks[0]
		case 8: // MUS / unsat subset
			sub := world.World{}
			genC07(r, &sub, big)
			t = sub.Tasks[0]
		case 9:
			sub := world.World{}
			switch sub9 {
			case 0:
				genC08(r, &sub, big)
			case 1:
				genBF(r, &sub)
			case 2:
				genC09(r, &sub, big)
			default:
				genC10(r, &sub, big)
			}
			t = sub.Tasks[0]
		}
		t.Verbose = false // the statistics reporter reads solver fields without synchronisation, by design: C16 speaks of verbose off
		w.Tasks = append(w.Tasks, t)
	}
	if r.Bool(0.5) {
		knobs(r, w)
	}
	w.MapSeed = r.Next()
	schedMulti(r, w)
}

func min(a, b int) int {
	if a < b {
		return a
	}
	return b
}

func max(a, b int) int {
	if a > b {
		return a
	}
	return b
}

// upPuzzle builds a formula whose verdict is decided by unit propagation at parse time, with the
// unit clauses (plain, or written with a repeated literal) at arbitrary positions, implication
// clauses placed before and after them, optionally a clause falsified by the propagated
// assignment, and padding. Order matters to any fixpoint computation: that is the point.
func upPuzzle(r *world.Rng, maxN int) (int, [][]int) {
	n := r.Range(3, max(3, maxN))
	val := make([]bool, n+1)
	for v := 1; v <= n; v++ {
		val[v] = r.Bool(0.5)
	}
	tl := func(v int) int { // the literal of v that is true under val
		if val[v] {
			return v
		}
		return -v
	}
	p := r.Perm(n)
	k := r.Range(1, 3) // seeds: propagated from unit clauses
	var cl [][]int
	known := []int{}
	for i := 0; i < k && i < n; i++ {
		v := p[i] + 1
		u := []int{tl(v)}
		if r.Bool(0.4) {
			u = []int{tl(v), tl(v)} // becomes unit only after duplicate removal
		}
		cl = append(cl, u)
		known = append(known, v)
	}
	for i := k; i < n; i++ { // each further variable implied by one or two known ones
		v := p[i] + 1
		if r.Bool(0.25) {
			continue // left free
		}
		c := []int{tl(v), -tl(known[r.Intn(len(known))])}
		if r.Bool(0.4) {
			o := known[r.Intn(len(known))]
			if -tl(o) != c[1] {
				c = append(c, -tl(o))
			}
		}
		cl = append(cl, c)
		known = append(known, v)
	}
	if r.Bool(0.5) && len(known) >= 2 { // victim: falsified once everything is propagated
		a, b := known[r.Intn(len(known))], known[r.Intn(len(known))]
		c := []int{-tl(a), -tl(b)}
		if a == b {
			c = c[:1]
		}
		if r.Bool(0.3) {
			o := known[r.Intn(len(known))]
			if o != a && o != b {
				c = append(c, -tl(o))
			}
		}
		cl = append(cl, c)
	}
	for i := 0; i < r.Range(0, 5); i++ { // padding over any variables
		cl = append(cl, distinctLits(r, n, r.Range(2, min(n, 3))))
	}
	q := r.Perm(len(cl))
	out := make([][]int, len(cl))
	for i, j := range q {
		out[i] = cl[j]
	}
	return n, out
}

// oneHotGroups: binary-rich clausal problem: several groups with at-least-one and pairwise
// at-most-one clauses, plus mixed-polarity binary clauses (implications) between members, in
// random order. This is what at-most-one detection looks for, and what can confuse it.
func oneHotGroups(r *world.Rng, maxN int) (int, [][]int) {
	var cl [][]int
	n := 0
	g := r.Range(2, 4)
	var groups [][]int
	for i := 0; i < g && n < maxN-1; i++ {
		sz := r.Range(2, 4)
		if n+sz > maxN {
			sz = maxN - n
		}
		var vs []int
		for j := 0; j < sz; j++ {
			n++
			vs = append(vs, n)
		}
		groups = append(groups, vs)
		if r.Bool(0.8) {
			cl = append(cl, append([]int{}, vs...))
		}
		for a := 0; a < len(vs); a++ {
			for b := a + 1; b < len(vs); b++ {
				if r.Bool(0.92) {
					cl = append(cl, []int{-vs[a], -vs[b]})
				}
			}
		}
	}
	for i := 0; i < r.Range(1, 6); i++ { // implications and other binaries across groups
		a := r.Range(1, n)
		b := r.Range(1, n)
		if a == b {
			continue
		}
		switch r.Intn(3) {
		case 0:
			cl = append(cl, []int{-a, b})
		case 1:
			cl = append(cl, []int{a, b})
		default:
			cl = append(cl, []int{-a, -b})
		}
	}
	for i := 0; i < r.Range(0, 3); i++ {
		cl = append(cl, distinctLits(r, n, r.Range(2, min(n, 3))))
	}
	if r.Bool(0.3) && len(cl) > 0 {
		cl = append(cl, append([]int{}, cl[r.Intn(len(cl))]...))
	}
	q := r.Perm(len(cl))
	out := make([][]int, len(cl))
	for i, j := range q {
		out[i] = cl[j]
	}
	return n, out
}

func abs(x int) int {
	if x < 0 {
		return -x
	}
	return x
}
