package gen

import "gsim/world"

func stubCNF(r *world.Rng, w *world.World) {
	n, cl := cnfInstance(r, 12, false)
	w.Tasks = []world.TaskSpec{{Kind: "cnf", N: n, Clauses: cl, Route: "slicenb"}}
	schedSingle(r, w)
}

func genC07(r *world.Rng, w *world.World, big bool) { stubCNF(r, w) }
func genC08(r *world.Rng, w *world.World, big bool) { stubCNF(r, w) }
func genC09(r *world.Rng, w *world.World, big bool) { stubCNF(r, w) }
func genC10(r *world.Rng, w *world.World, big bool) { stubCNF(r, w) }
func genC13(r *world.Rng, w *world.World, big bool) { stubCNF(r, w) }
func genC19(r *world.Rng, w *world.World, big bool) { stubCNF(r, w) }
func genBF(r *world.Rng, w *world.World)            { stubCNF(r, w) }
