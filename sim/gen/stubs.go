package gen

import (
	"fmt"
	"strings"

	"gsim/ref"
	"gsim/world"
)

// ---- C09 -------------------------------------------------------------------------

// appendCon builds a constraint for AppendClause (normalised: >=, positive coefficients).
func appendCon(r *world.Rng, nCur, nMax int) (ref.Con, string) {
	n := nCur
	if r.Bool(0.2) && nCur < nMax {
		n = r.Range(nCur+1, nMax) // mentions variables never seen before
	}
	if n < 1 {
		n = 1
	}
	switch r.Intn(10) {
	case 0, 1, 2, 3: // clause, possibly repeating a literal
		k := r.Range(1, min(n, 4))
		l := distinctLits(r, n, k)
		if r.Bool(0.2) {
			x := l[r.Intn(len(l))]
			l = append(l, x)
			if r.Bool(0.35) {
				l = append(l, x) // three copies of the same literal
			}
		}
		if r.Bool(0.03) {
			l = []int{}
		}
		return ref.Con{Lits: l, K: 1}, "clause"
	case 4, 5: // unit
		return ref.Con{Lits: []int{lit(r, n)}, K: 1}, "clause"
	case 6, 7: // cardinality
		k := r.Range(2, max(2, min(n, 5)))
		l := distinctLits(r, n, k)
		if len(l) < 2 {
			return ref.Con{Lits: l, K: 1}, "clause"
		}
		if r.Bool(0.25) {
			return ref.Con{Lits: l, K: len(l)}, "card" // every literal forced at once
		}
		return ref.Con{Lits: l, K: r.Range(1, len(l))}, "card"
	default: // PB
		k := r.Range(1, min(n, 5))
		l := distinctLits(r, n, k)
		w := make([]int, len(l))
		sum := 0
		for i := range w {
			w[i] = r.Range(1, 4)
			sum += w[i]
		}
		if r.Bool(0.25) {
			return ref.Con{Lits: l, Coefs: w, K: sum}, "pb" // every literal forced at once
		}
		return ref.Con{Lits: l, Coefs: w, K: r.Range(1, sum+r.Pick(0, 0, 1))}, "pb"
	}
}

func genC09(r *world.Rng, w *world.World, big bool) {
	t := world.TaskSpec{Kind: "incr"}
	nMax := 10
	switch r.Intn(4) {
	case 0, 1:
		n, cl := cnfInstance(r, 8, true)
		var keep [][]int
		for _, c := range cl {
			if len(c) > 0 || r.Bool(0.1) {
				keep = append(keep, c)
			}
		}
		t.N, t.Clauses, t.Route = n, keep, "slicenb"
		if t.Clauses == nil {
			t.Clauses = [][]int{}
		}
	default:
		route := r.PickS("card", "pb")
		forms := []string{"clause", "card"}
		if route == "pb" {
			forms = []string{"clause", "card", "pb"}
		}
		n, cs := consInstance(r, 8, forms, 4)
		cs = append(cs, topVarClause(r, n))
		t.N, t.Cons, t.Route = n, cs, route
	}
	nCur := t.N
	nOps := r.Range(2, 12)
	for i := 0; i < nOps; i++ {
		if r.Bool(0.4) || i == nOps-1 {
			t.Ops = append(t.Ops, world.Op{Kind: "solve"})
			continue
		}
		c, form := appendCon(r, nCur, nMax)
		if m := c.MaxVar(); m > nCur {
			nCur = m
		}
		cc := c
		if r.Bool(0.35) {
			form += "+constr" // built as a PBConstr (PropClause / AtLeast / GtEq) and converted with its Clause method
		}
		t.Ops = append(t.Ops, world.Op{Kind: "append", Con: &cc, Form: form})
	}
	w.Tasks = []world.TaskSpec{t}
	knobs(r, w)
	schedSingle(r, w)
}

// ---- C10 -------------------------------------------------------------------------

func genC10(r *world.Rng, w *world.World, big bool) {
	n, cl := cnfInstance(r, 10, false)
	if r.Bool(0.5) { // satisfiable-ish 3-SAT a bit below the threshold, large enough for real search under assumptions
		n = r.Range(10, 16)
		cl = randKSAT(r, n, int(float64(n)*(3.2+1.0*r.Float())), 3, 3)
	}
	if n < 1 {
		n = 1
	}
	var keep [][]int
	for _, c := range cl {
		if len(c) > 0 {
			keep = append(keep, c)
		}
	}
	if r.Bool(0.5) { // unit clauses / parse-time propagated facts
		for i := 0; i < r.Range(1, 3); i++ {
			keep = append(keep, []int{lit(r, n)})
		}
	}
	if keep == nil {
		keep = [][]int{}
	}
	t := world.TaskSpec{Kind: "assume", N: n, Clauses: keep, Route: r.PickS("slicenb", "slicenb", "dimacs")}
	if t.Route == "dimacs" {
		t.Text = dimacsText(r, n, keep, false)
	}
	rounds := r.Range(1, 8)
	var prev []int
	// models of the base (if any): assumptions drawn from one of them are consistent, so the round
	// is decided by search rather than by an immediate contradiction
	var models []uint32
	if n <= 16 {
		models = ref.CNF(n, keep).SomeModels(8, r.Next())
	}
	for i := 0; i < rounds; i++ {
		var l []int
		kind := r.Intn(6)
		if len(models) > 0 && r.Bool(0.55) {
			kind = 6
		}
		switch kind {
		case 6:
			m := models[r.Intn(len(models))]
			for _, v := range r.Perm(n)[:r.Range(1, min(n, 4))] {
				x := v + 1
				if !ref.LitTrue(x, m) {
					x = -x
				}
				if r.Bool(0.15) {
					x = -x // one literal against the model: consistent or not, search decides
				}
				l = append(l, x)
			}
		case 0: // empty
		case 1: // repeat the previous round
			l = append(l, prev...)
		case 2: // contradict the previous round
			for _, x := range prev {
				l = append(l, -x)
			}
		case 3: // contradicting each other
			v := r.Range(1, n)
			l = []int{v, -v}
		default:
			l = distinctLits(r, n, r.Range(1, min(n, 4)))
		}
		if r.Bool(0.1) && len(l) > 0 { // repeated literal
			l = append(l, l[0])
		}
		if l == nil {
			l = []int{}
		}
		t.Ops = append(t.Ops, world.Op{Kind: "assume", Lits: l})
		prev = l
	}
	w.Tasks = []world.TaskSpec{t}
	knobs(r, w)
	schedSingle(r, w)
}

// ---- C07 / C08 ------------------------------------------------------------------

// explainInstance: small CNF (one clause per line for explain.ParseCNF).
func explainInstance(r *world.Rng, maxN, maxM int) (int, [][]int) {
	var n int
	var cl [][]int
	switch r.Intn(8) {
	case 0: // trivially conflicting units plus noise
		n = r.Range(1, maxN)
		v := r.Range(1, n)
		cl = [][]int{{v}, {-v}}
		for i := 0; i < r.Range(0, 3); i++ {
			cl = append(cl, distinctLits(r, n, r.Range(1, min(n, 3))))
		}
	case 1: // two disjoint cores
		n = 4
		cl = [][]int{{1, 2}, {1, -2}, {-1, 2}, {-1, -2}, {3}, {-3, 4}, {-4}}
		if r.Bool(0.5) {
			cl = append(cl, []int{3, 4})
		}
	case 2: // pigeonhole 3 into 2
		n, cl = pigeon(3, 2)
	case 4: // gated core: a core that needs search, every clause weakened by -g, and g forced by a clause that may repeat its literal
		var core [][]int
		if r.Bool(0.5) {
			n, core = pigeon(3, 2)
		} else {
			n, core = 2, [][]int{{1, 2}, {1, -2}, {-1, 2}, {-1, -2}}
		}
		g := n + 1
		n++
		for _, c := range core {
			cl = append(cl, append(append([]int{}, c...), -g))
		}
		force := []int{g}
		for i := 0; i < r.Pick(0, 1, 1, 2); i++ {
			force = append(force, g)
		}
		cl = append(cl, force)
		if r.Bool(0.4) {
			cl = append(cl, distinctLits(r, n, r.Range(2, 3)))
		}
	case 3: // implication chain
		n = r.Range(2, min(maxN, 6))
		for i := 1; i < n; i++ {
			cl = append(cl, []int{-i, i + 1})
		}
		cl = append(cl, []int{1}, []int{-n})
	default:
		n = r.Range(2, maxN)
		m := r.Range(n, min(maxM, 3*n+2))
		cl = randKSAT(r, n, m, 1, 3)
	}
	if r.Bool(0.3) && len(cl) > 0 { // repeated clause
		cl = append(cl, append([]int{}, cl[r.Intn(len(cl))]...))
	}
	if r.Bool(0.2) && len(cl) > 0 { // a clause that repeats a literal (possibly nothing but one literal, several times)
		i := r.Intn(len(cl))
		c := append([]int{}, cl[i]...)
		if len(c) > 0 {
			x := c[r.Intn(len(c))]
			if r.Bool(0.4) {
				c = []int{x, x}
				if r.Bool(0.3) {
					c = append(c, x)
				}
			} else {
				c = append(c, x)
			}
			cl[i] = c
		}
	}
	if len(cl) > maxM {
		cl = cl[:maxM]
	}
	p := r.Perm(len(cl))
	out := make([][]int, len(cl))
	for i, j := range p {
		out[i] = cl[j]
	}
	return n, out
}

func genC07(r *world.Rng, w *world.World, big bool) {
	n, cl := explainInstance(r, 8, 14)
	t := world.TaskSpec{Kind: "mus", N: n, Clauses: cl, Entry: r.PickS("MUS", "MUSDeletion", "MUSInsertion", "MUSMaxSat")}
	t.Text = dimacsText(r, n, cl, true)
	t.Chunks = chunks(r)
	if r.Bool(0.4) { // a second extraction on the same Problem value
		t.Route = r.PickS("MUS", "MUSDeletion", "MUSInsertion", "UnsatSubset", "MUSMaxSat")
	}
	w.Tasks = []world.TaskSpec{t}
	knobs(r, w)
	schedMulti(r, w)
}

func certLine(c []int) string {
	var b strings.Builder
	for _, l := range c {
		fmt.Fprintf(&b, "%d ", l)
	}
	b.WriteString("0")
	return b.String()
}

// rupTrace derives clauses by unit propagation with the reference checker: a
// certificate every line of which is RUP.
func rupTrace(r *world.Rng, n int, cl [][]int, steps int) []string {
	chk := ref.NewRUP(n, cl)
	var out []string
	for i := 0; i < steps*6 && len(out) < steps; i++ {
		c := distinctLits(r, n, r.Range(1, min(n, r.Pick(3, 3, 5))))
		if chk.Check(c) {
			out = append(out, certLine(c))
		}
	}
	if chk.Refuted() && r.Bool(0.8) {
		out = append(out, "0")
	}
	return out
}

func genC08(r *world.Rng, w *world.World, big bool) {
	n, cl := explainInstance(r, 8, 12)
	t := world.TaskSpec{Kind: "cert", N: n, Clauses: cl}
	t.Text = dimacsText(r, n, cl, true)
	t.Entry = r.PickS("unsat-reader", "unsat-chan", "unsat-chan", "subset")
	if t.Entry != "subset" && r.Bool(0.3) {
		// genuine solver trace on a problem large enough to need search
		n = r.Range(8, 14)
		if r.Bool(0.3) {
			// long traces with long learned clauses: entailment is then decided by the reference DPLL
			n = r.Range(18, 34)
		}
		cl = randKSAT(r, n, int(float64(n)*(4.2+0.8*r.Float())), 3, 3)
		t.N, t.Clauses = n, cl
		t.Text = dimacsText(r, n, cl, true)
		t.Lines = []string{r.PickS("@trace", "@trace", fmt.Sprintf("@trace-drop:%d", r.Intn(1000)), fmt.Sprintf("@trace-flip:%d", r.Intn(1000)), fmt.Sprintf("@trace-remove:%d", r.Intn(1000)))}
		t.Cap = capacity(r)
		t.Delays = delays(r)
		t.Chunks = chunks(r)
	} else if t.Entry != "subset" {
		var lines []string
		switch r.Intn(5) {
		case 0, 1: // RUP-derivable sequence
			lines = rupTrace(r, n, cl, r.Range(0, 6))
		case 2: // random clauses
			for i := 0; i < r.Range(0, 5); i++ {
				lines = append(lines, certLine(distinctLits(r, n, r.Range(1, min(n, r.Pick(3, 5))))))
			}
			if r.Bool(0.4) {
				lines = append(lines, "0")
			}
		case 3: // derivable sequence with one literal dropped or flipped, or a line removed
			lines = rupTrace(r, n, cl, r.Range(1, 6))
			if len(lines) > 0 {
				i := r.Intn(len(lines))
				c, _ := ref.ParseCertLine(lines[i])
				switch {
				case len(c) > 0 && r.Bool(0.4):
					j := r.Intn(len(c))
					c = append(c[:j:j], c[j+1:]...)
					lines[i] = certLine(c)
				case len(c) > 0 && r.Bool(0.6):
					c[r.Intn(len(c))] *= -1
					lines[i] = certLine(c)
				default:
					lines = append(lines[:i:i], lines[i+1:]...)
				}
			}
		default: // only the empty clause, or nothing
			if r.Bool(0.6) {
				lines = []string{"0"}
			}
		}
		// lines that repeat a literal or contain a variable in both polarities are legal clause lines too
		if len(lines) > 0 && r.Bool(0.35) {
			i := r.Intn(len(lines))
			c, _ := ref.ParseCertLine(lines[i])
			if len(c) > 0 {
				x := c[r.Intn(len(c))]
				if r.Bool(0.5) {
					c = append(c, x)
				} else {
					c = append(c, -x)
				}
				if r.Bool(0.5) {
					c[0], c[len(c)-1] = c[len(c)-1], c[0]
				}
				if r.Bool(0.5) {
					lines[i] = certLine(c)
				} else {
					lines = append(lines[:i:i], append([]string{certLine(c)}, lines[i:]...)...)
				}
			}
		}
		if r.Bool(0.15) {
			v := r.Range(1, n)
			extra := certLine([]int{v, -v})
			if r.Bool(0.5) {
				extra = certLine([]int{v, v, lit(r, n)})
			}
			i := r.Intn(len(lines) + 1)
			lines = append(lines[:i:i], append([]string{extra}, lines[i:]...)...)
			if r.Bool(0.6) {
				lines = append(lines, certLine(distinctLits(r, n, r.Range(1, min(n, 2)))))
			}
			if r.Bool(0.4) {
				lines = append(lines, "0")
			}
		}
		// comments and blank lines anywhere
		var withNoise []string
		for _, ln := range lines {
			if r.Bool(0.1) {
				withNoise = append(withNoise, r.PickS("c a comment", "", "o 12", "s UNSATISFIABLE"))
			}
			withNoise = append(withNoise, ln)
		}
		t.Lines = withNoise
		if t.Lines == nil {
			t.Lines = []string{}
		}
		t.Cap = capacity(r)
		t.Delays = delays(r)
		t.Chunks = chunks(r)
		if r.Bool(0.2) {
			t.Text2 = "nonl"
		}
		// stream faults of the reader entry: the stream fails part-way through the certificate; a line
		// stretched across the scanner's buffer sizes or beyond the longest line it takes
		if t.Entry == "unsat-reader" && len(t.Lines) > 0 && r.Bool(0.2) {
			total := 0
			for _, ln := range t.Lines {
				total += len(ln) + 1
			}
			t.FailAt = r.Range(1, total)
		}
		if len(t.Lines) > 0 && r.Bool(0.08) {
			t.Pad = []int{r.Intn(len(t.Lines)), r.Pick(4090, 4096, 4100, 8192, 12000, 66000, 70000)}
			if big {
				t.Pad[1] = r.Pick(4096, 65535, 65536, 66000, 131072)
			}
		}
	}
	w.Tasks = []world.TaskSpec{t}
	knobs(r, w)
	schedMulti(r, w)
}

// ---- C13 -------------------------------------------------------------------------

func genC13(r *world.Rng, w *world.World, big bool) {
	var t world.TaskSpec
	switch r.Intn(4) {
	case 0:
		n, cl := cnfInstance(r, 8, true)
		if len(cl) > 10 {
			cl = cl[:10]
		}
		if r.Bool(0.03) {
			// a problem without variables is well formed too: no clause at all, or only empty clauses
			n, cl = 0, [][]int{}
			if r.Bool(0.4) {
				cl = [][]int{{}}
			}
		}
		t = world.TaskSpec{Kind: "parse", Entry: "solver.ParseCNF", N: n, Clauses: cl, Text: dimacsText(r, n, cl, false)}
	case 1:
		n, cl := cnfInstance(r, 8, true)
		if len(cl) > 10 {
			cl = cl[:10]
		}
		if r.Bool(0.03) {
			// a problem without variables is well formed too: no clause at all, or only empty clauses
			n, cl = 0, [][]int{}
			if r.Bool(0.4) {
				cl = [][]int{{}}
			}
		}
		t = world.TaskSpec{Kind: "parse", Entry: "explain.ParseCNF", N: n, Clauses: cl, Text: dimacsText(r, n, cl, true)}
	case 2:
		n, cs := consInstance(r, 8, []string{"clause", "card", "pb", "pb"}, r.Pick(3, 9))
		if len(cs) > 10 {
			cs = cs[:10]
		}
		for i := range cs {
			if cs[i].Op == "<=" {
				cs[i].Op = ">="
			}
			if cs[i].Op == "" {
				cs[i].Op = ">="
			}
		}
		var cost *ref.Cost
		if r.Bool(0.6) {
			cost = randCost(r, n, 5)
			if r.Bool(0.15) {
				if cost.Coefs == nil {
					cost.Coefs = make([]int, len(cost.Lits))
					for i := range cost.Coefs {
						cost.Coefs[i] = 1
					}
				}
				cost.Coefs[r.Intn(len(cost.Coefs))] = -r.Range(1, 4)
			}
		}
		t = world.TaskSpec{Kind: "parse", Entry: "solver.ParseOPB", N: n, Cons: cs, Cost: cost, Text: opbText(r, n, cs, cost)}
	default:
		sub := world.World{}
		genC04(r, &sub, big)
		for sub.Tasks[0].Route != "wcnf" {
			sub = world.World{}
			genC04(r, &sub, big)
		}
		t = sub.Tasks[0]
		t.Kind, t.Entry, t.Route = "parse", "maxsat.ParseWCNF", ""
		t.Cap, t.Delays = 0, nil
	}
	t.Chunks = chunks(r)
	t.EOFWith = r.Bool(0.3)
	if r.Bool(0.12) {
		// push the text across the 4096-byte buffer boundary of bufio: leading comment lines of a
		// random total length, so that the boundary falls somewhere inside the constraints
		cp := "c "
		if t.Entry == "solver.ParseOPB" {
			cp = "* "
		}
		total := r.Range(3900, 4100) - r.Intn(len(t.Text)+1)
		if r.Bool(0.2) {
			total += 4096
		}
		var pad strings.Builder
		if r.Bool(0.4) { // one comment line longer than the buffer, with text that would parse as constraints in its tail
			tail := r.PickS(" 1 -2 0", " these are words", " 3 0 ", " +1 x1 >= 1 ;", " 7")
			pad.WriteString(cp + strings.Repeat(r.PickS("x", "1 ", "ab "), r.Range(1400, 4600)) + tail + "\n")
			total = 0
		}
		for total > 0 {
			n := r.Range(40, 900)
			if n > total {
				n = total
			}
			pad.WriteString(cp + strings.Repeat("x", n) + "\n")
			total -= n + len(cp) + 1
		}
		t.Text = pad.String() + t.Text
		if r.Bool(0.5) {
			t.Chunks = []int{4096}
		}
	}
	w.Tasks = []world.TaskSpec{t}
	w.Sched = world.Sched{Strategy: "serial"}
}

// ---- bf filler (C16) ---------------------------------------------------------------

func bfText(r *world.Rng, depth int) string {
	vars := []string{"a", "b", "c", "d", "e", "f"}
	if depth == 0 || r.Bool(0.3) {
		v := vars[r.Intn(len(vars))]
		if r.Bool(0.3) {
			return "^" + v
		}
		return v
	}
	switch r.Intn(6) {
	case 0:
		return "(" + bfText(r, depth-1) + " & " + bfText(r, depth-1) + ")"
	case 1:
		return "(" + bfText(r, depth-1) + " | " + bfText(r, depth-1) + ")"
	case 2:
		return "(" + bfText(r, depth-1) + " -> " + bfText(r, depth-1) + ")"
	case 3:
		return "(" + bfText(r, depth-1) + " = " + bfText(r, depth-1) + ")"
	case 4:
		return "^(" + bfText(r, depth-1) + ")"
	default:
		k := r.Range(1, 5)
		p := r.Perm(len(vars))
		var names []string
		for i := 0; i < k; i++ {
			names = append(names, vars[p[i]])
		}
		return "{" + strings.Join(names, ", ") + "}"
	}
}

func genBF(r *world.Rng, w *world.World) {
	var parts []string
	for i := 0; i < r.Range(1, 4); i++ {
		parts = append(parts, bfText(r, 3))
	}
	w.Tasks = []world.TaskSpec{{Kind: "bf", Text: strings.Join(parts, "; ")}}
	schedSingle(r, w)
}

func randBF(r *world.Rng, depth int, vars []string) *ref.BF {
	if depth == 0 || r.Bool(0.3) {
		v := &ref.BF{Op: "var", Var: vars[r.Intn(len(vars))]}
		if r.Bool(0.3) {
			return &ref.BF{Op: "not", Subs: []*ref.BF{v}}
		}
		return v
	}
	switch r.Intn(6) {
	case 0:
		return &ref.BF{Op: "and", Subs: []*ref.BF{randBF(r, depth-1, vars), randBF(r, depth-1, vars)}}
	case 1:
		return &ref.BF{Op: "or", Subs: []*ref.BF{randBF(r, depth-1, vars), randBF(r, depth-1, vars)}}
	case 2:
		return &ref.BF{Op: "implies", Subs: []*ref.BF{randBF(r, depth-1, vars), randBF(r, depth-1, vars)}}
	case 3:
		return &ref.BF{Op: "eq", Subs: []*ref.BF{randBF(r, depth-1, vars), randBF(r, depth-1, vars)}}
	case 4:
		return &ref.BF{Op: "not", Subs: []*ref.BF{randBF(r, depth-1, vars)}}
	default:
		k := r.Range(1, min(5, len(vars)))
		p := r.Perm(len(vars))
		u := &ref.BF{Op: "unique"}
		for i := 0; i < k; i++ {
			u.Names = append(u.Names, vars[p[i]])
		}
		return u
	}
}

func genC19(r *world.Rng, w *world.World, big bool) {
	kind := r.PickS("cnf", "cnf", "opb", "opb", "wcnf", "bf")
	t := world.TaskSpec{Kind: "cli", Entry: kind}
	var flags []string
	verboseOK := true
	switch kind {
	case "cnf":
		f := r.PickS("", "", "-count", "-certified", "-mus", "-cp", "-verbose")
		if f == "-mus" {
			n, cl := explainInstance(r, 7, 12)
			t.N, t.Clauses = n, cl
			t.Text = dimacsText(r, n, cl, true)
		} else {
			n, cl := cnfInstance(r, 9, true)
			if f != "-count" && r.Bool(0.3) { // a longer v line: more room for something else to print in the middle of it
				n = r.Range(12, 16)
				cl = randKSAT(r, n, int(float64(n)*(3.0+1.2*r.Float())), 3, 3)
			}
			if (f == "" || f == "-verbose" || f == "-cp") && r.Bool(0.04) {
				// a model line of 4-16 KiB (beyond the usual buffer sizes of buffered writers), from a sparse,
				// easily satisfied formula over many variables
				n = r.Pick(700, 1000, 1500, 2500)
				div := 5
				if r.Bool(0.07) {
					// ... and a few of several hundred KiB: more literals than a 64 Ki chunk of anything
					// (seeded change S9-C19e printed the model in chunks of 65536 literals and restarted the
					// numbering in every chunk)
					n = r.Pick(65600, 70000)
					div = 200
				}
				cl = nil
				for i := 0; i < n/div; i++ {
					cl = append(cl, distinctLits(r, n, r.Pick(2, 3)))
				}
				cl = append(cl, []int{n * r.Pick(1, -1), r.Range(1, n-1)})
			}
			if f == "-count" && len(cl) < n && n > 7 {
				n = 7
				var keep [][]int
				for _, c := range cl {
					ok := true
					for _, l := range c {
						if l > 7 || l < -7 {
							ok = false
						}
					}
					if ok {
						keep = append(keep, c)
					}
				}
				cl = keep
			}
			if cl == nil {
				cl = [][]int{}
			}
			t.N, t.Clauses = n, cl
			t.Text = dimacsText(r, n, cl, false)
		}
		if f != "" {
			flags = append(flags, f)
		}
	case "opb":
		n, cs := consInstance(r, 8, []string{"clause", "card", "pb", "pb"}, r.Pick(3, 6))
		for i := range cs {
			if cs[i].Op == "<=" || cs[i].Op == "" {
				cs[i].Op = ">="
			}
		}
		top := topVarClause(r, n)
		top.Op = ">="
		cs = append(cs, top)
		t.N, t.Cons = n, cs
		if r.Bool(0.7) {
			t.Cost = randCost(r, n, 5)
		}
		t.Text = opbText(r, n, cs, t.Cost)
		if f := r.PickS("", "", "-count", "-cp", "-verbose"); f != "" {
			flags = append(flags, f)
		}
	case "wcnf":
		sub := world.World{}
		genC04(r, &sub, big)
		for sub.Tasks[0].Route != "wcnf" {
			sub = world.World{}
			genC04(r, &sub, big)
		}
		t.N, t.Soft, t.Text = sub.Tasks[0].N, sub.Tasks[0].Soft, sub.Tasks[0].Text
		if r.Bool(0.3) {
			flags = append(flags, "-verbose")
		}
	case "bf":
		vars := []string{"a", "b", "c", "d", "e", "f"}[:r.Range(2, 6)]
		top := &ref.BF{Op: "top"}
		for i := 0; i < r.Range(1, 4); i++ {
			top.Subs = append(top.Subs, randBF(r, 3, vars))
		}
		t.Formula = top
		t.Text = top.Render()
		if r.Bool(0.5) {
			t.Text += "\n"
		}
		verboseOK = false
	}
	if verboseOK && len(flags) == 1 && flags[0] != "-verbose" && r.Bool(0.25) {
		flags = append([]string{"-verbose"}, flags...)
	}
	path := fmt.Sprintf("in%d.%s", r.Intn(1000), kind)
	file := world.SimFile{Path: path, Data: t.Text, Chunks: chunks(r)}
	t.Route = "ok"
	if r.Bool(0.15) {
		switch r.Intn(5) {
		case 0:
			file.OpenErr = "ENOENT"
			t.Route = "unreadable"
		case 1:
			file.OpenErr = "EACCES"
			t.Route = "unreadable"
		case 2: // a directory carrying a known suffix: the first read fails
			file.ReadErr = -1
			t.Route = "unreadable"
		case 3: // read error in the middle of the file
			if len(file.Data) > 2 {
				file.ReadErr = r.Range(1, len(file.Data)-1)
			} else {
				file.ReadErr = -1
			}
			t.Route = "unreadable"
		case 4:
			path = strings.TrimSuffix(path, kind) + r.PickS("txt", "dimacs", "CNF", "sat")
			file.Path = path
			t.Route = "unknown"
			// -mus reads anything as DIMACS: no suffix dispatch on that path
			var fl []string
			for _, f := range flags {
				if f != "-mus" {
					fl = append(fl, f)
				}
			}
			flags = fl
		}
	}
	t.Files = []world.SimFile{file}
	t.Argv = append(append([]string{"gophersat"}, flags...), path)
	w.Tasks = []world.TaskSpec{t}
	knobs(r, w)
	schedMulti(r, w)
	w.Sched.Burst = r.Pick(3, 20, 200)
	for _, f := range flags {
		if f == "-verbose" {
			w.Sched.TickProb = []float64{0, 0.02, 0.2}[r.Intn(3)]
		}
	}
	if t.N >= 60000 {
		// the very large files are about the size of the output, not about interleavings: millions of
		// fine-grained scheduling points would only make the world slow
		w.Sched = world.Sched{Seed: w.Sched.Seed, Strategy: "sticky", Burst: 2000}
		w.Knobs, w.Restarts = nil, nil
	}
}

func stubCNF(r *world.Rng, w *world.World) {
	n, cl := cnfInstance(r, 12, false)
	w.Tasks = []world.TaskSpec{{Kind: "cnf", N: n, Clauses: cl, Route: "slicenb"}}
	schedSingle(r, w)
}
