package tasks

import (
	"fmt"
	"sort"

	"github.com/crillab/gophersat/solver"

	"gsim/ref"
	"gsim/world"
)

func negAll(l []int) []int {
	o := make([]int, len(l))
	for i, x := range l {
		o[i] = -x
	}
	return o
}

func cp(l []int) []int { return append([]int{}, l...) }

func ones(n int) []int {
	o := make([]int, n)
	for i := range o {
		o[i] = 1
	}
	return o
}

// cardConstrs renders one reference constraint (unit coefficients) through the
// public cardinality constructors.
func cardConstrs(c ref.Con) []solver.CardConstr {
	l := cp(c.Lits)
	switch c.Op {
	case "", ">=":
		if c.K == 1 {
			return []solver.CardConstr{solver.AtLeast1(l...)}
		}
		return []solver.CardConstr{{Lits: l, AtLeast: c.K}}
	case "<=":
		if c.K == 1 {
			return []solver.CardConstr{solver.AtMost1(l...)}
		}
		return []solver.CardConstr{{Lits: negAll(l), AtLeast: len(l) - c.K}}
	case "=":
		if c.K == 1 {
			return solver.Exactly1(l...)
		}
		return []solver.CardConstr{{Lits: l, AtLeast: c.K}, {Lits: negAll(l), AtLeast: len(l) - c.K}}
	}
	panic("bad op")
}

// pbConstrs renders one reference constraint through the public PB constructors.
func pbConstrs(c ref.Con) []solver.PBConstr {
	l := cp(c.Lits)
	if c.Coefs == nil {
		switch c.Op {
		case "", ">=":
			if c.K == 1 {
				return []solver.PBConstr{solver.PropClause(l...)}
			}
			return []solver.PBConstr{solver.AtLeast(l, c.K)}
		case "<=":
			return []solver.PBConstr{solver.AtMost(l, c.K)}
		case "=":
			return solver.Eq(l, ones(len(l)), c.K)
		}
	}
	w := cp(c.Coefs)
	switch c.Op {
	case "", ">=":
		return []solver.PBConstr{solver.GtEq(l, w, c.K)}
	case "<=":
		return []solver.PBConstr{solver.LtEq(l, w, c.K)}
	case "=":
		return solver.Eq(l, w, c.K)
	}
	panic("bad op")
}

func toLits(l []int) []solver.Lit {
	o := make([]solver.Lit, len(l))
	for i, x := range l {
		o[i] = solver.IntToLit(int32(x))
	}
	return o
}

// buildProblem builds a solver.Problem from the reference constraints by the
// task's route. Constructors take ownership of their slices, so everything is
// copied first and the oracle keeps what the caller wrote.
func buildProblem(t *world.TaskSpec, out *Outcome) (*solver.Problem, bool) {
	var pb *solver.Problem
	switch t.Route {
	case "card":
		var cs []solver.CardConstr
		for _, c := range t.Cons {
			cs = append(cs, cardConstrs(c)...)
		}
		pb = solver.ParseCardConstrs(cs)
	case "pb":
		var cs []solver.PBConstr
		for _, c := range t.Cons {
			cs = append(cs, pbConstrs(c)...)
		}
		pb = solver.ParsePBConstrs(cs)
	case "opb":
		rd := NewSimReader(t.Text, t.Chunks, t.EOFWith)
		p, err := solver.ParseOPB(rd)
		out.readerFaults(rd)
		if err != nil {
			out.fail("C13", "opb-parse-error", "well-formed OPB text rejected: %v; text=%q", err, t.Text)
			return nil, false
		}
		return p, true // cost function comes from the text
	case "cnf", "cnfnb":
		var cl [][]int
		for _, c := range t.Cons {
			cl = append(cl, cp(c.Lits))
		}
		if t.Route == "cnfnb" {
			pb = solver.ParseSliceNb(cl, t.N)
		} else {
			pb = solver.ParseSlice(cl)
		}
	default:
		out.fail("TOOL", "bad-route", "%q", t.Route)
		return nil, false
	}
	if t.Cost != nil {
		var w []int
		if t.Cost.Coefs != nil {
			w = cp(t.Cost.Coefs)
		}
		pb.SetCostFunc(toLits(t.Cost.Lits), w)
	}
	return pb, true
}

func newSolver(t *world.TaskSpec, pb *solver.Problem, cpMode, amo bool) *solver.Solver {
	if amo {
		pb.DetectAtMostOne()
	}
	s := solver.New(pb)
	s.CuttingPlanes = cpMode
	s.Verbose = t.Verbose // the statistics reporter: a goroutine with a ticker, a select and a rendez-vous at the end
	return s
}

func refProblem(t *world.TaskSpec) *ref.Problem {
	p := &ref.Problem{N: t.N, Cons: t.Cons, Cost: t.Cost}
	for _, c := range t.Cons {
		if m := c.MaxVar(); m > p.N {
			p.N = m
		}
	}
	if t.Cost != nil {
		if m := (ref.Con{Lits: t.Cost.Lits}).MaxVar(); m > p.N {
			p.N = m
		}
	}
	return p
}

// modelBits pads/truncates a library model to the oracle's variable count.
// Variables the library does not report (dropped because they only occurred
// with coefficient 0 or in trivially true constraints) are completed with
// false: the property allows any completion there.
func modelBits(m []bool) uint32 { return ref.Bools(m) }

func statsProbes(s *solver.Solver, out *Outcome) {
	st := s.Stats
	if st.NbRestarts > 0 {
		out.probe("restart")
	}
	if st.NbDeleted > 0 {
		out.probe("learned-deleted")
	}
	if st.NbUnitLearned > 0 {
		out.probe("learned-unit")
	}
	if st.NbLearned > 0 {
		out.probe("learned-constraint")
	}
	if st.NbConflicts > 0 {
		out.probe("conflict")
	}
}

// execPB: C02 (and the decision half of C14 when Entry == "both").
func execPB(env Env, t *world.TaskSpec, out *Outcome) {
	rp := refProblem(t)
	truth, _ := rp.Satisfiable()
	modes := []bool{t.CP}
	prop := "C02"
	if t.Entry == "both" {
		modes = []bool{false, true}
		prop = "C14"
	}
	var verdicts []string
	for _, mode := range modes {
		pb, ok := buildProblem(t, out)
		if !ok {
			out.Summary = "pb:error"
			return
		}
		if pb.Status == solver.Unsat && truth {
			out.fail(prop, "parse-status", "Problem.Status Unsat after parsing, constraints are satisfiable: %v", t.Cons)
		}
		s := newSolver(t, pb, mode, t.AMO)
		var tap *tapCollector
		mark := len(out.Viol)
		if mode && prop == "C14" {
			tap = newTap(env, rp)
			env.Phase("cp")
		}
		status := s.Solve()
		if tap != nil {
			tap.stop(env)
			tap.judge(out, t)
		}
		statsProbes(s, out)
		verdicts = append(verdicts, statusStr(status))
		judgeDecision(prop, fmt.Sprintf("cp=%v amo=%v route=%s", mode, t.AMO, t.Route), rp, truth, status, s, out, t)
		if mode && prop == "C14" {
			markCP(out, mark)
			env.Phase("")
		}
	}
	out.Summary = "pb:" + verdicts[0]
}

func judgeDecision(prop, cfg string, rp *ref.Problem, truth bool, status solver.Status, s *solver.Solver, out *Outcome, t *world.TaskSpec) {
	switch status {
	case solver.Sat:
		if !truth {
			out.fail(prop, "verdict", "[%s] answered Sat, constraints are unsatisfiable: %v", cfg, t.Cons)
			return
		}
		m := s.Model()
		a := modelBits(m)
		if i := rp.FirstViolated(a); i >= 0 {
			out.fail(prop, "model-invalid", "[%s] model %v violates constraint %d (%s) as written; all=%v", cfg, m, i, rp.Cons[i], t.Cons)
		}
	case solver.Unsat:
		if truth {
			out.fail(prop, "verdict", "[%s] answered Unsat, constraints are satisfiable: %v", cfg, t.Cons)
		}
	default:
		out.fail(prop, "indet", "[%s] Solve returned %s", cfg, statusStr(status))
	}
}

// ---------------------------------------------------------------------------
// Learned-constraint tap (C14): every constraint learned in cutting-planes
// mode must be entailed by the original problem plus whatever the optimisation
// loop has appended so far.

type tapCollector struct {
	premise *ref.Problem
	bad     []string
	n       int
	units   int
	pbs     int
}

func clauseToCon(c *solver.Clause) ref.Con {
	con := ref.Con{K: c.Cardinality()}
	pbc := c.PseudoBoolean()
	for i := 0; i < c.Len(); i++ {
		con.Lits = append(con.Lits, int(c.Get(i).Int()))
		if pbc {
			con.Coefs = append(con.Coefs, c.Weight(i))
		}
	}
	return con
}

func newTap(env Env, rp *ref.Problem) *tapCollector {
	tc := &tapCollector{premise: &ref.Problem{N: rp.N, Cons: append([]ref.Con(nil), rp.Cons...)}}
	env.SetTap(func(kind string, a, b any) {
		switch kind {
		case "addLearned":
			c, ok := b.(*solver.Clause)
			if !ok {
				return
			}
			con := clauseToCon(c)
			tc.n++
			if c.PseudoBoolean() {
				tc.pbs++
			}
			if con.MaxVar() > tc.premise.N {
				tc.bad = append(tc.bad, fmt.Sprintf("learned constraint %s mentions a variable beyond %d", con, tc.premise.N))
				return
			}
			if ok, cm := tc.premise.Entails(con); !ok {
				tc.bad = append(tc.bad, fmt.Sprintf("learned constraint %s is not a consequence (counter-model %b)", con, cm))
			}
		case "addLearnedUnit":
			l, ok := b.(solver.Lit)
			if !ok {
				return
			}
			tc.n++
			tc.units++
			con := ref.Clause(int(l.Int()))
			if con.MaxVar() > tc.premise.N {
				return
			}
			if ok, cm := tc.premise.Entails(con); !ok {
				tc.bad = append(tc.bad, fmt.Sprintf("learned unit %d is not a consequence (counter-model %b)", l.Int(), cm))
			}
		case "AppendClause":
			c, ok := b.(*solver.Clause)
			if !ok {
				return
			}
			// strengthening constraint added by the optimisation loop: part of the premise from now on
			tc.premise.Cons = append(tc.premise.Cons, clauseToCon(c))
		}
	})
	return tc
}

func (tc *tapCollector) stop(env Env) { env.SetTap(nil) }

func (tc *tapCollector) judge(out *Outcome, t *world.TaskSpec) {
	if tc.n > 0 {
		out.probe("tap-learned")
	}
	if tc.pbs > 0 {
		out.probe("tap-learned-pb")
	}
	if tc.units > 0 {
		out.probe("tap-learned-unit")
	}
	sort.Strings(tc.bad)
	if len(tc.bad) > 0 {
		out.fail("C14", "learned-not-entailed", "%s; problem=%v", tc.bad[0], t.Cons)
	}
}

// markCP tags the violations found while the cutting-planes strategy was on.
func markCP(out *Outcome, from int) {
	for i := from; i < len(out.Viol); i++ {
		out.Viol[i].Clause += "@cp"
	}
}
