package tasks

import (
	"fmt"
	"strconv"
	"strings"

	"github.com/crillab/gophersat/bf"
	"github.com/crillab/gophersat/explain"
	"github.com/crillab/gophersat/solver"

	"gsim/ref"
	"gsim/world"
)

func deepCopy(cs [][]int) [][]int {
	o := make([][]int, len(cs))
	for i, c := range cs {
		if c != nil {
			o[i] = append([]int{}, c...)
		}
	}
	return o
}

func sameClauses(a, b [][]int) bool {
	if len(a) != len(b) {
		return false
	}
	for i := range a {
		if len(a[i]) != len(b[i]) {
			return false
		}
		for j := range a[i] {
			if a[i][j] != b[i][j] {
				return false
			}
		}
	}
	return true
}

func parseExplain(t *world.TaskSpec, out *Outcome) (*explain.Problem, bool) {
	rd := NewSimReader(t.Text, t.Chunks, t.EOFWith)
	pb, err := explain.ParseCNF(rd)
	out.readerFaults(rd)
	if err != nil {
		out.fail("C13", "explain-parse-error", "well-formed DIMACS text rejected by explain.ParseCNF: %v; text=%q", err, t.Text)
		return nil, false
	}
	if !sameClauses(pb.Clauses, t.Clauses) || pb.NbVars != t.N || pb.NbClauses != len(t.Clauses) {
		out.fail("C13", "explain-parse-differs", "explain.ParseCNF read n=%d nbclauses=%d %v, the text says n=%d %v; text=%q", pb.NbVars, pb.NbClauses, pb.Clauses, t.N, t.Clauses, t.Text)
		return nil, false
	}
	return pb, true
}

// execMUS: C07.
func execMUS(env Env, t *world.TaskSpec, out *Outcome) {
	pb, ok := parseExplain(t, out)
	if !ok {
		out.Summary = "mus:error"
		return
	}
	before := deepCopy(pb.Clauses)
	nv, nc := pb.NbVars, pb.NbClauses
	truth := ref.CNFSat(t.N, t.Clauses)
	var mus *explain.Problem
	var err error
	switch t.Entry {
	case "MUS":
		mus, err = pb.MUS()
	case "MUSDeletion":
		mus, err = pb.MUSDeletion()
	case "MUSInsertion":
		mus, err = pb.MUSInsertion()
	case "MUSMaxSat":
		mus, err = pb.MUSMaxSat()
	default:
		out.fail("TOOL", "bad-entry", "%q", t.Entry)
		return
	}
	cfg := fmt.Sprintf("%s n=%d clauses=%v", t.Entry, t.N, t.Clauses)
	if !sameClauses(pb.Clauses, before) || pb.NbVars != nv || pb.NbClauses != nc {
		out.fail("C07", "caller-problem-changed", "[%s] the caller's problem was modified: Clauses=%v NbVars=%d NbClauses=%d (before: %v %d %d)", cfg, pb.Clauses, pb.NbVars, pb.NbClauses, before, nv, nc)
	}
	if truth {
		out.Summary = "mus:sat-error"
		if err == nil {
			out.fail("C07", "no-error-on-sat", "[%s] the problem is satisfiable but no error was returned (result %v)", cfg, clausesOf(mus))
		}
		return
	}
	out.Summary = "mus:ok"
	if err != nil {
		out.fail("C07", "error-on-unsat", "[%s] the problem is unsatisfiable but an error was returned: %v", cfg, err)
		return
	}
	if mus == nil {
		out.fail("C07", "nil-result", "[%s] nil result without error", cfg)
		return
	}
	if msg := ref.JudgeMUS(t.N, t.Clauses, mus.Clauses); msg != "" {
		out.fail("C07", "mus-"+strings.SplitN(strings.ReplaceAll(msg, " ", "-"), ":", 2)[0], "[%s] %s; result=%v", cfg, msg, mus.Clauses)
	}
	if mus.NbClauses != len(mus.Clauses) {
		out.fail("C07", "mus-nbclauses", "[%s] result says NbClauses=%d but holds %d clauses", cfg, mus.NbClauses, len(mus.Clauses))
	}
	// "the caller's problem is left unchanged": a second extraction on the same value must be as good as the first
	if t.Route == "" || len(out.Viol) > 0 {
		return
	}
	var mus2 *explain.Problem
	var err2 error
	switch t.Route {
	case "MUS":
		mus2, err2 = pb.MUS()
	case "MUSDeletion":
		mus2, err2 = pb.MUSDeletion()
	case "MUSInsertion":
		mus2, err2 = pb.MUSInsertion()
	case "MUSMaxSat":
		mus2, err2 = pb.MUSMaxSat()
	case "UnsatSubset":
		mus2, err2 = pb.UnsatSubset()
	default:
		return
	}
	out.probe("mus-second-extraction")
	cfg2 := fmt.Sprintf("%s then %s on the same problem, n=%d clauses=%v", t.Entry, t.Route, t.N, t.Clauses)
	if err2 != nil || mus2 == nil {
		out.fail("C07", "second-extraction-error", "[%s] the second extraction returned error %v", cfg2, err2)
		return
	}
	if !ref.SubMultiset(mus2.Clauses, t.Clauses) {
		out.fail("C07", "second-extraction-not-submultiset", "[%s] second result %v is not a sub-multiset of the input", cfg2, mus2.Clauses)
	} else if ref.CNFSat(t.N, mus2.Clauses) {
		out.fail("C07", "second-extraction-satisfiable", "[%s] second result %v is satisfiable", cfg2, mus2.Clauses)
	} else if t.Route != "UnsatSubset" && t.Route != "MUSMaxSat" {
		if msg := ref.JudgeMUS(t.N, t.Clauses, mus2.Clauses); msg != "" {
			out.fail("C07", "second-extraction-"+strings.SplitN(strings.ReplaceAll(msg, " ", "-"), ":", 2)[0], "[%s] %s; result=%v", cfg2, msg, mus2.Clauses)
		}
	}
	if !sameClauses(pb.Clauses, before) || pb.NbVars != nv || pb.NbClauses != nc {
		out.fail("C07", "caller-problem-changed", "[%s] the caller's problem was modified by the second extraction", cfg2)
	}
}

func clausesOf(p *explain.Problem) [][]int {
	if p == nil {
		return nil
	}
	return p.Clauses
}

// execCert: C08. Certificate checking through the reader or the channel entry
// point, then the same call again; or UnsatSubset.
func execCert(env Env, t *world.TaskSpec, out *Outcome) {
	pb, ok := parseExplain(t, out)
	if !ok {
		out.Summary = "cert:error"
		return
	}
	before := deepCopy(pb.Clauses)
	prob := ref.CNF(t.N, t.Clauses)
	cfg := fmt.Sprintf("%s n=%d clauses=%v cert=%q", t.Entry, t.N, t.Clauses, strings.Join(t.Lines, " | "))
	if t.Entry == "subset" {
		truth, _ := prob.Satisfiable()
		sub, err := pb.UnsatSubset()
		if truth {
			out.Summary = "subset:sat-error"
			if err == nil {
				out.fail("C08", "subset-no-error-on-sat", "[%s] satisfiable problem, no error (result %v)", cfg, clausesOf(sub))
			}
			return
		}
		out.Summary = "subset:ok"
		if err != nil {
			out.fail("C08", "subset-error-on-unsat", "[%s] unsatisfiable problem, error %v", cfg, err)
			return
		}
		if !ref.SubMultiset(sub.Clauses, t.Clauses) {
			out.fail("C08", "subset-not-submultiset", "[%s] result %v is not a sub-multiset of the input", cfg, sub.Clauses)
		} else if ref.CNFSat(t.N, sub.Clauses) {
			out.fail("C08", "subset-satisfiable", "[%s] result %v is satisfiable", cfg, sub.Clauses)
		}
		if !sameClauses(pb.Clauses[:min(len(pb.Clauses), len(before))], before) || len(pb.Clauses) != pb.NbClauses {
			out.fail("C08", "problem-not-restored", "[%s] after UnsatSubset the problem holds %d clauses (NbClauses=%d): %v", cfg, len(pb.Clauses), pb.NbClauses, pb.Clauses)
		}
		return
	}
	if len(t.Lines) > 0 && strings.HasPrefix(t.Lines[0], "@trace") {
		// a genuine solver trace (possibly with one literal dropped or flipped, or one line removed)
		tt := *t
		tt.Lines = genuineTrace(env, t, out)
		t = &tt
		cfg = fmt.Sprintf("%s n=%d clauses=%v cert(trace)=%q", t.Entry, t.N, t.Clauses, strings.Join(t.Lines, " | "))
	}
	// one line stretched with blanks (blanks separate fields whatever their number): across the scanner's
	// buffer sizes, or beyond the longest line a bufio.Scanner takes (an error is then tolerated, a
	// wrong "valid" is not)
	tolerate := false
	if len(t.Pad) == 2 && len(t.Lines) > 0 {
		tt := *t
		tt.Lines = append([]string(nil), t.Lines...)
		i := t.Pad[0] % len(tt.Lines)
		if f := strings.Fields(tt.Lines[i]); len(f) > 0 && len(tt.Lines[i]) < t.Pad[1] {
			blanks := strings.Repeat(" ", t.Pad[1]-len(tt.Lines[i]))
			tt.Lines[i] = f[0] + blanks + strings.TrimPrefix(strings.TrimLeft(tt.Lines[i], " \t"), f[0])
			out.fault("long-certificate-line", 1)
			if t.Pad[1] >= 60000 && t.Entry == "unsat-reader" {
				tolerate = true
				out.fault("certificate-line-beyond-scanner-limit", 1)
			}
		}
		t = &tt
	}
	if len(t.Pad) == 2 || t.FailAt != 0 {
		cfg += fmt.Sprintf(" pad=%v fail_at=%d", t.Pad, t.FailAt)
	}
	// reference reading of the certificate: which lines are clause lines, is every one RUP in order,
	// is every one entailed, where is the first empty clause
	rup := ref.NewRUP(t.N, t.Clauses)
	// entailment: enumeration for small problems; otherwise the problem plus the negation of the line
	// is refuted by the reference DPLL
	entailed := func(c []int) bool {
		if t.N <= 14 {
			ok, _ := prob.Entails(ref.Clause(c...))
			return ok
		}
		cl := copyClauses(t.Clauses)
		for _, l := range c {
			cl = append(cl, []int{-l})
		}
		return !ref.CNFSat(t.N, cl)
	}
	allRUP := true
	mustAccept := true
	allEntailed := true
	firstNotEntailed := ""
	for _, ln := range t.Lines {
		f := strings.Fields(ln)
		if len(f) == 0 {
			continue
		}
		c, isClause := ref.ParseCertLine(ln)
		if !isClause {
			continue // comment or other non-clause line (generator only emits lines whose first field is not an integer)
		}
		if isTautology(c) {
			// a line containing a variable in both polarities is trivially a consequence, but whether
			// "derivable by unit propagation" covers it is a matter of reading: acceptance is not
			// demanded for such a line, nor for what follows it (the checker stops at a rejected line)
			mustAccept = false
		}
		viaRUP := allRUP && rup.Check(c)
		if !viaRUP {
			allRUP = false
		}
		// a line derived by unit propagation from the problem and earlier derived lines is a consequence
		if allEntailed && !viaRUP && !entailed(c) {
			allEntailed = false
			firstNotEntailed = ln
		}
		if len(c) == 0 && t.Entry == "unsat-chan" && allRUP {
			break // the channel checker stops at the first accepted empty clause
		}
	}
	call := func() (bool, error) {
		if t.Entry == "unsat-reader" {
			text := strings.Join(t.Lines, "\n")
			if len(t.Lines) > 0 && t.Text2 != "nonl" {
				text += "\n"
			}
			rd := NewSimReader(text, t.Chunks, t.EOFWith)
			if t.FailAt != 0 && t.FailAt < len(text) {
				// the stream fails before the end of the certificate: an error is the expected answer,
				// "valid" is wrong whenever a line of the certificate is not a consequence
				rd.FailAt = t.FailAt
				tolerate = true
			}
			v, e := pb.Unsat(rd)
			out.readerFaults(rd)
			return v, e
		}
		out.chanFault(t.Cap, t.Delays, false)
		ch := make(chan string, t.Cap)
		done := make(chan struct{})
		fin := make(chan struct{})
		env.Go("cert-producer", func() {
			defer Close(env, fin)
			for i, ln := range t.Lines {
				if len(t.Delays) > 0 {
					if d := t.Delays[i%len(t.Delays)]; d > 0 {
						env.Sleep(d)
					} else if d == -1 {
						env.Sync()
					} else if d < -1 {
						env.Snooze(int(-d))
					}
				}
				// the checker may stop reading at any time: never block on it for ever
				h := env.Pre()
				stopped := false
				// the stop test sits after the scheduling point and right before the blocking select, so the
				// two cases are never ready together (the runtime would then choose at random)
				select {
				case <-done:
					stopped = true
				default:
					select {
					case ch <- ln:
					case <-done:
						stopped = true
					}
				}
				env.Post(h)
				if stopped {
					return
				}
			}
			Close(env, ch)
		})
		valid, err := pb.UnsatChan(ch)
		Close(env, done)
		Recv(env, fin)
		return valid, err
	}
	valid, err := call()
	out.Summary = fmt.Sprintf("cert:%v", valid)
	if err != nil && !tolerate {
		out.fail("C08", "cert-error", "[%s] the checker returned an error on a syntactically valid certificate: %v", cfg, err)
		return
	}
	if err != nil {
		out.probe("cert-error-under-fault")
	}
	if valid && !allEntailed {
		out.fail("C08", "accepted-non-consequence", "[%s] certificate reported valid but line %q is not a logical consequence of the problem", cfg, firstNotEntailed)
	}
	if !valid && allRUP && mustAccept && !tolerate {
		out.fail("C08", "rejected-rup", "[%s] every line is derivable by unit propagation but the certificate was rejected", cfg)
	}
	if allRUP {
		out.probe("cert-all-rup")
	} else if allEntailed {
		out.probe("cert-entailed-not-rup")
	} else {
		out.probe("cert-with-non-consequence")
	}
	if !sameClauses(pb.Clauses, before) || len(pb.Clauses) != pb.NbClauses || pb.NbClauses != len(before) {
		out.fail("C08", "problem-not-restored", "[%s] after checking the problem holds %d clauses (NbClauses=%d): %v", cfg, len(pb.Clauses), pb.NbClauses, pb.Clauses)
		return
	}
	valid2, err2 := call()
	if valid2 != valid || (err2 != nil) != (err != nil) {
		out.fail("C08", "second-call-differs", "[%s] first call valid=%v, second call on the same problem valid=%v err=%v", cfg, valid, valid2, err2)
	}
	if !sameClauses(pb.Clauses, before) || len(pb.Clauses) != pb.NbClauses {
		out.fail("C08", "problem-not-restored", "[%s] after the second check the problem holds %d clauses (NbClauses=%d)", cfg, len(pb.Clauses), pb.NbClauses)
	}
}

func min(a, b int) int {
	if a < b {
		return a
	}
	return b
}

// execBF: filler task for C16 worlds (no claim of its own): bf.Parse + bf.Solve
// on a formula text; the returned model must make the formula true.
func execBF(env Env, t *world.TaskSpec, out *Outcome) {
	f, err := bf.Parse(strings.NewReader(t.Text))
	if err != nil {
		out.Summary = "bf:parse-error"
		return
	}
	m := bf.Solve(f)
	if m == nil {
		out.Summary = "bf:unsat"
		return
	}
	out.Summary = "bf:sat"
	for _, v := range []string{"a", "b", "c", "d", "e", "f", "g", "h", "i", "j"} {
		if _, ok := m[v]; !ok {
			m[v] = false // completed arbitrarily on variables the model does not mention
		}
	}
	if !f.Eval(m) {
		out.fail("C11", "bf-model-invalid", "bf.Solve returned %v which does not satisfy %q", m, t.Text)
	}
	var sb strings.Builder
	if err := bf.Dimacs(f, &sb); err != nil {
		out.fail("C12", "bf-dimacs-error", "%v", err)
	}
}

func isTautology(c []int) bool {
	for i, a := range c {
		for _, b := range c[i+1:] {
			if a == -b {
				return true
			}
		}
	}
	return false
}

// genuineTrace runs a certified solve of the problem and returns its certificate, altered as the
// directive in t.Lines[0] says: "@trace", "@trace-drop:i", "@trace-flip:i", "@trace-remove:i".
func genuineTrace(env Env, t *world.TaskSpec, out *Outcome) []string {
	s := solver.New(solver.ParseSlice(copyClauses(t.Clauses)))
	s.Certified = true
	s.CertChan = make(chan string, 4)
	var st Stream[string]
	done := make(chan struct{})
	Consume(env, "trace-consumer", s.CertChan, nil, &st, done)
	s.Solve()
	Close(env, s.CertChan)
	Recv(env, done)
	lines := append([]string(nil), st.Items...)
	out.probe("cert-genuine-trace")
	if len(lines) >= 3 {
		out.probe("cert-genuine-trace-len>=3")
	}
	d := strings.SplitN(t.Lines[0], ":", 2)
	if len(d) != 2 || len(lines) == 0 {
		return lines
	}
	k, _ := strconv.Atoi(d[1])
	i := k % len(lines)
	c, ok := ref.ParseCertLine(lines[i])
	if !ok {
		return lines
	}
	switch d[0] {
	case "@trace-remove":
		return append(lines[:i:i], lines[i+1:]...)
	case "@trace-drop":
		if len(c) > 0 {
			j := (k / 7) % len(c)
			c = append(c[:j:j], c[j+1:]...)
		}
	case "@trace-flip":
		if len(c) > 0 {
			c[(k/7)%len(c)] *= -1
		}
	}
	var b strings.Builder
	for _, l := range c {
		fmt.Fprintf(&b, "%d ", l)
	}
	b.WriteString("0")
	lines[i] = b.String()
	return lines
}
