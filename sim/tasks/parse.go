package tasks

import (
	"fmt"
	"strings"

	"github.com/crillab/gophersat/maxsat"
	"github.com/crillab/gophersat/solver"

	"gsim/ref"
	"gsim/world"
)

// problemHolds evaluates a parsed solver.Problem through its public fields.
func problemHolds(pb *solver.Problem, a uint32) bool {
	if pb.Status == solver.Unsat {
		return false
	}
	for _, u := range pb.Units {
		if !ref.LitTrue(int(u.Int()), a) {
			return false
		}
	}
	for _, c := range pb.Clauses {
		sum := 0
		for i := 0; i < c.Len(); i++ {
			if ref.LitTrue(int(c.Get(i).Int()), a) {
				sum += c.Weight(i)
			}
		}
		if sum < c.Cardinality() {
			return false
		}
	}
	return true
}

func sameCons(a, b []ref.Con) bool {
	if len(a) != len(b) {
		return false
	}
	for i := range a {
		if fmt.Sprint(a[i].Lits) != fmt.Sprint(b[i].Lits) || a[i].K != b[i].K {
			return false
		}
		oa, ob := a[i].Op, b[i].Op
		if oa == "" {
			oa = ">="
		}
		if ob == "" {
			ob = ">="
		}
		if oa != ob {
			return false
		}
		for j := range a[i].Lits {
			wa, wb := 1, 1
			if a[i].Coefs != nil {
				wa = a[i].Coefs[j]
			}
			if b[i].Coefs != nil {
				wb = b[i].Coefs[j]
			}
			if wa != wb {
				return false
			}
		}
	}
	return true
}

// samplesOf picks a few assignments deterministically (first, last, middle ones).
func samplesOf(xs []uint32, k int) []uint32 {
	if len(xs) <= k {
		return xs
	}
	out := []uint32{xs[0], xs[len(xs)-1]}
	step := len(xs) / (k - 1)
	for i := step; i < len(xs)-1 && len(out) < k; i += step {
		out = append(out, xs[i])
	}
	return out
}

// execParse: C13.
func execParse(env Env, t *world.TaskSpec, out *Outcome) {
	out.Summary = "parse:" + t.Entry
	if len(t.Chunks) > 0 && (len(t.Clauses) > 0 || len(t.Cons) > 0 || len(t.Soft) > 0) {
		out.probe("nontrivial") // a non-empty text delivered in pieces
	}
	whole := func() *SimReader { return NewSimReader(t.Text, nil, false) }
	chunked := func() *SimReader { return NewSimReader(t.Text, t.Chunks, t.EOFWith) }
	switch t.Entry {
	case "solver.ParseCNF":
		n, cl, err := ref.ReadDIMACS(t.Text)
		if err != nil || n != t.N || !sameClauses(cl, t.Clauses) {
			out.fail("TOOL", "ref-reader-disagrees", "reference DIMACS reader: n=%d %v err=%v; generator: n=%d %v; text=%q", n, cl, err, t.N, t.Clauses, t.Text)
			return
		}
		rd := chunked()
		pb, err := solver.ParseCNF(rd)
		out.readerFaults(rd)
		if err != nil {
			out.fail("C13", "dimacs-parse-error", "well-formed DIMACS text rejected: %v; text=%q chunks=%v", err, t.Text, t.Chunks)
			return
		}
		if pb.NbVars != n {
			out.fail("C13", "dimacs-nbvars", "parsed problem has %d variables, the header declares %d; text=%q", pb.NbVars, n, t.Text)
		}
		rp := ref.CNF(n, cl)
		for a := uint32(0); a < 1<<uint(n); a++ {
			if problemHolds(pb, a) != rp.Holds(a) {
				out.fail("C13", "dimacs-models-differ", "assignment %b: parsed problem says %v, the text says %v; text=%q parsed=%q", a, problemHolds(pb, a), rp.Holds(a), t.Text, pb.CNF())
				return
			}
		}
		pb2, err2 := solver.ParseCNF(whole())
		if err2 != nil || pb2.CNF() != pb.CNF() {
			out.fail("C13", "delivery-dependent", "same bytes, different delivery, different result: whole=%q (err %v) chunked%v=%q", cnfOrNil(pb2), err2, t.Chunks, pb.CNF())
		}
	case "explain.ParseCNF":
		n, cl, err := ref.ReadDIMACS(t.Text)
		if err != nil || n != t.N || !sameClauses(cl, t.Clauses) {
			out.fail("TOOL", "ref-reader-disagrees", "reference DIMACS reader: n=%d %v err=%v; generator: n=%d %v; text=%q", n, cl, err, t.N, t.Clauses, t.Text)
			return
		}
		parseExplain(t, out)
	case "solver.ParseOPB":
		rp, err := ref.ReadOPB(t.Text)
		if err != nil || !sameCons(rp.Cons, t.Cons) {
			out.fail("TOOL", "ref-reader-disagrees", "reference OPB reader: %+v err=%v; generator: %v; text=%q", rp, err, t.Cons, t.Text)
			return
		}
		if rp.N < t.N {
			rp.N = t.N
		}
		rd := chunked()
		pb, err := solver.ParseOPB(rd)
		out.readerFaults(rd)
		if err != nil {
			out.fail("C13", "opb-parse-error", "well-formed OPB text rejected: %v; text=%q chunks=%v", err, t.Text, t.Chunks)
			return
		}
		for a := uint32(0); a < 1<<uint(rp.N); a++ {
			if problemHolds(pb, a) != rp.Holds(a) {
				out.fail("C13", "opb-models-differ", "assignment %b: parsed problem says %v, the text says %v; text=%q parsed=%q", a, problemHolds(pb, a), rp.Holds(a), t.Text, pb.PBString())
				return
			}
		}
		pb2, err2 := solver.ParseOPB(whole())
		if err2 != nil || pb2.PBString() != pb.PBString() {
			out.fail("C13", "delivery-dependent", "same bytes, different delivery, different result; text=%q chunks=%v", t.Text, t.Chunks)
		}
		if rp.Cost == nil {
			return
		}
		neg := false
		for _, c := range rp.Cost.Coefs {
			if c < 0 {
				neg = true
			}
		}
		if neg {
			out.probe("opb-negative-cost-coefficient")
		}
		// cost of every model: optimise the text with all variables pinned (sampled models)
		models := rp.Models()
		base := t.Text
		if !strings.HasSuffix(base, "\n") {
			base += "\n"
		}
		for _, a := range samplesOf(models, 6) {
			var sb strings.Builder
			sb.WriteString(base)
			for v := 1; v <= rp.N; v++ {
				if ref.LitTrue(v, a) {
					fmt.Fprintf(&sb, "+1 x%d >= 1 ;\n", v)
				} else {
					fmt.Fprintf(&sb, "+1 ~x%d >= 1 ;\n", v)
				}
			}
			pp, err := solver.ParseOPB(strings.NewReader(sb.String()))
			if err != nil {
				out.fail("C13", "opb-parse-error", "pinned text rejected: %v; text=%q", err, sb.String())
				return
			}
			res := solver.New(pp).Optimal(nil, nil)
			want := rp.Cost.Value(a)
			if res.Status != solver.Sat || res.Weight != want {
				out.fail("C13", "opb-cost-differs", "model %b costs %d under the text's objective, the parsed problem gives %s/%d; text=%q", a, want, statusStr(res.Status), res.Weight, t.Text)
				return
			}
		}
	case "maxsat.ParseWCNF":
		n, wcl, err := ref.ReadWCNF(t.Text)
		if err != nil || n != t.N || len(wcl) != len(t.Soft) {
			out.fail("TOOL", "ref-reader-disagrees", "reference WCNF reader: n=%d %v err=%v; generator n=%d %v; text=%q", n, wcl, err, t.N, t.Soft, t.Text)
			return
		}
		hard := &ref.Problem{N: n}
		for i, c := range wcl {
			if c.Hard != (t.Soft[i].Weight == 0) || fmt.Sprint(c.Lits) != fmt.Sprint(t.Soft[i].Con.Lits) || (!c.Hard && c.Weight != t.Soft[i].Weight) {
				out.fail("TOOL", "ref-reader-disagrees", "clause %d: reference reader %+v, generator %+v; text=%q", i, c, t.Soft[i], t.Text)
				return
			}
			if c.Hard {
				hard.Cons = append(hard.Cons, ref.Clause(c.Lits...))
			}
		}
		costOf := func(a uint32) int {
			s := 0
			for _, c := range wcl {
				if !c.Hard && !ref.Clause(c.Lits...).Holds(a) {
					s += c.Weight
				}
			}
			return s
		}
		min, sat := msOptimum(hard, costOf)
		rdw := chunked()
		s, err := maxsat.ParseWCNF(rdw)
		out.readerFaults(rdw)
		if err != nil {
			out.fail("C13", "wcnf-parse-error", "well-formed WCNF text rejected: %v; text=%q", err, t.Text)
			return
		}
		res := s.Optimal(nil, nil)
		if (res.Status == solver.Sat) != sat || (sat && res.Weight != min) {
			out.fail("C13", "wcnf-optimum-differs", "the text has optimum sat=%v/%d, the parsed problem gives %s/%d; text=%q", sat, min, statusStr(res.Status), res.Weight, t.Text)
			return
		}
		s2, err2 := maxsat.ParseWCNF(whole())
		if err2 != nil {
			out.fail("C13", "delivery-dependent", "whole delivery rejected: %v", err2)
			return
		}
		if r2 := s2.Optimal(nil, nil); r2.Status != res.Status || r2.Weight != res.Weight {
			out.fail("C13", "delivery-dependent", "same bytes, different delivery, different optimum: %s/%d vs %s/%d", statusStr(r2.Status), r2.Weight, statusStr(res.Status), res.Weight)
		}
		// pinned samples need a top weight to express hard unit clauses
		f := strings.Fields(strings.SplitN(t.Text[strings.Index(t.Text, "p wcnf"):], "\n", 2)[0])
		if len(f) < 5 {
			return
		}
		top := f[4]
		base := t.Text
		if !strings.HasSuffix(base, "\n") {
			base += "\n"
		}
		var all []uint32
		for a := uint32(0); a < 1<<uint(n); a++ {
			if hard.Holds(a) {
				all = append(all, a)
			}
		}
		for _, a := range samplesOf(all, 5) {
			var sb strings.Builder
			sb.WriteString(base)
			for v := 1; v <= n; v++ {
				if ref.LitTrue(v, a) {
					fmt.Fprintf(&sb, "%s %d 0\n", top, v)
				} else {
					fmt.Fprintf(&sb, "%s -%d 0\n", top, v)
				}
			}
			sp, err := maxsat.ParseWCNF(strings.NewReader(sb.String()))
			if err != nil {
				out.fail("C13", "wcnf-parse-error", "pinned text rejected: %v", err)
				return
			}
			r := sp.Optimal(nil, nil)
			if r.Status != solver.Sat || r.Weight != costOf(a) {
				out.fail("C13", "wcnf-cost-differs", "assignment %b costs %d under the text, the parsed problem gives %s/%d; text=%q", a, costOf(a), statusStr(r.Status), r.Weight, t.Text)
				return
			}
		}
	default:
		out.fail("TOOL", "bad-entry", "%q", t.Entry)
	}
}

func cnfOrNil(pb *solver.Problem) string {
	if pb == nil {
		return "<nil>"
	}
	return pb.CNF()
}
