package tasks

import (
	"fmt"
	"strings"

	"github.com/crillab/gophersat/solver"

	"gsim/ref"
	"gsim/world"
)

// toClause renders an appended constraint (normalised >= form, positive
// coefficients) through the public Clause constructors.
func toClause(c ref.Con, form string) *solver.Clause {
	if f, ok := strings.CutSuffix(form, "+constr"); ok {
		// the other public way to a *Clause: a PBConstr from the constraint constructors, converted
		ints := append([]int(nil), c.Lits...)
		switch f {
		case "clause":
			return solver.PropClause(ints...).Clause()
		case "card":
			return solver.AtLeast(ints, c.K).Clause()
		case "pb":
			return solver.GtEq(ints, cp(c.Coefs), c.K).Clause()
		}
		panic("bad form " + form)
	}
	lits := toLits(c.Lits)
	switch form {
	case "clause":
		return solver.NewClause(lits)
	case "card":
		return solver.NewCardClause(lits, c.K)
	case "pb":
		return solver.NewPBClause(lits, cp(c.Coefs), c.K)
	}
	panic("bad form " + form)
}

// execIncr: C09. A history (Solve | AppendClause)* against a list of constraints.
func execIncr(env Env, t *world.TaskSpec, out *Outcome) {
	pb, ok := buildAny(t, out)
	if !ok {
		out.Summary = "incr:error"
		return
	}
	s := solver.New(pb)
	model := refAny(t)
	cur := &ref.Problem{N: model.N, Cons: append([]ref.Con(nil), model.Cons...)}
	var trace []string
	sum := ""
	wasUnsat := false
	for i, op := range t.Ops {
		switch op.Kind {
		case "append":
			c := op.Con.Clone()
			s.AppendClause(toClause(c, op.Form))
			cur.Cons = append(cur.Cons, *op.Con)
			if m := op.Con.MaxVar(); m > cur.N {
				cur.N = m
				out.probe("append-new-variable")
			}
			trace = append(trace, fmt.Sprintf("append(%s)", op.Con))
		case "solve":
			st := s.Solve()
			truth, _ := cur.Satisfiable()
			trace = append(trace, "solve="+statusStr(st))
			sum += statusStr(st)[:1]
			hist := fmt.Sprintf("base=%s history=%v", specStr(t), trace)
			switch st {
			case solver.Sat:
				if !truth {
					out.fail("C09", "verdict", "op %d: Solve answered Sat, base and additions are unsatisfiable; %s", i, hist)
					return
				}
				if wasUnsat {
					out.fail("C09", "sat-after-unsat", "op %d: Sat after an earlier Unsat; %s", i, hist)
				}
				m := s.Model()
				if len(m) < cur.N {
					out.fail("C09", "model-length", "op %d: model has %d entries, %d variables mentioned so far; %s", i, len(m), cur.N, hist)
					return
				}
				if j := cur.FirstViolated(ref.Bools(m)); j >= 0 {
					out.fail("C09", "model-invalid", "op %d: model %v violates constraint %d (%s); %s", i, m, j, cur.Cons[j], hist)
					return
				}
			case solver.Unsat:
				wasUnsat = true
				if truth {
					out.fail("C09", "verdict", "op %d: Solve answered Unsat, base and additions are satisfiable; %s", i, hist)
					return
				}
			default:
				out.fail("C09", "indet", "op %d: Solve returned %s; %s", i, statusStr(st), hist)
				return
			}
		}
	}
	statsProbes(s, out)
	out.Summary = "incr:" + sum
}

// execAssume: C10. Rounds Assume(lits); Solve() on a base CNF.
func execAssume(env Env, t *world.TaskSpec, out *Outcome) {
	pb, _, ok := buildCNF(t, out)
	if !ok {
		out.Summary = "assume:error"
		return
	}
	base := ref.CNF(t.N, t.Clauses)
	if pb.Status == solver.Unsat {
		out.probe("assume-base-unsat")
	}
	if len(pb.Units) > 0 {
		out.probe("assume-base-has-parse-time-facts")
	}
	s := solver.New(pb)
	sum := ""
	var trace []string
	baseModels := base.Models() // enumerated once; each round filters them by its assumptions
	for i, op := range t.Ops {
		if op.Kind != "assume" {
			continue
		}
		st := s.Assume(toLits(op.Lits))
		if st != solver.Unsat {
			st = s.Solve()
		} else {
			out.probe("assume-returned-unsat")
		}
		round := &ref.Problem{N: base.N, Cons: append([]ref.Con(nil), base.Cons...)}
		for _, l := range op.Lits {
			round.Cons = append(round.Cons, ref.Clause(l))
		}
		truth := false
		for _, m := range baseModels {
			ok := true
			for _, l := range op.Lits {
				if !ref.LitTrue(l, m) {
					ok = false
					break
				}
			}
			if ok {
				truth = true
				break
			}
		}
		trace = append(trace, fmt.Sprintf("assume%v=%s", op.Lits, statusStr(st)))
		sum += statusStr(st)[:1]
		hist := fmt.Sprintf("base n=%d clauses=%v rounds=%v", t.N, t.Clauses, trace)
		switch st {
		case solver.Sat:
			if !truth {
				out.fail("C10", "verdict", "round %d: answered Sat, base and assumptions %v are unsatisfiable; %s", i, op.Lits, hist)
				return
			}
			m := s.Model()
			a := ref.Bools(m)
			if j := round.FirstViolated(a); j >= 0 {
				what := "base clause"
				if j >= len(base.Cons) {
					what = "assumption"
				}
				out.fail("C10", "model-invalid", "round %d: model %v violates %s %s; %s", i, m, what, round.Cons[j], hist)
				return
			}
		case solver.Unsat:
			if truth {
				out.fail("C10", "verdict", "round %d: answered Unsat, base and assumptions %v are satisfiable; %s", i, op.Lits, hist)
				return
			}
		default:
			out.fail("C10", "indet", "round %d: %s; %s", i, statusStr(st), hist)
			return
		}
	}
	statsProbes(s, out)
	out.Summary = "assume:" + sum
}
