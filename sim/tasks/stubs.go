package tasks

import "gsim/world"

func execIncr(env Env, t *world.TaskSpec, out *Outcome)   { out.fail("TOOL", "not-implemented", "incr") }
func execAssume(env Env, t *world.TaskSpec, out *Outcome) { out.fail("TOOL", "not-implemented", "assume") }
func execMUS(env Env, t *world.TaskSpec, out *Outcome)    { out.fail("TOOL", "not-implemented", "mus") }
func execCert(env Env, t *world.TaskSpec, out *Outcome)   { out.fail("TOOL", "not-implemented", "cert") }
func execParse(env Env, t *world.TaskSpec, out *Outcome)  { out.fail("TOOL", "not-implemented", "parse") }
func execBF(env Env, t *world.TaskSpec, out *Outcome)     { out.fail("TOOL", "not-implemented", "bf") }
