package tasks

import (
	"fmt"
	"sort"

	"github.com/crillab/gophersat/solver"

	"gsim/ref"
	"gsim/world"
)

// judgeStream: C20 clauses on a recorded result stream of an optimisation call.
func judgeStream(prop, cfg string, rp *ref.Problem, cost *ref.Cost, items []solver.Result, closed bool, ret solver.Result, trim int, out *Outcome, t *world.TaskSpec) {
	if !closed {
		out.fail("C20", "not-closed-at-return", "[%s] result channel still open when the call returned", cfg)
	}
	if len(items) == 0 {
		// the property speaks of the results that are delivered; a Sat answer that never reaches the
		// channel contradicts "the last delivered result equals the returned one", an Unsat answer
		// that is only returned does not
		if ret.Status == solver.Sat {
			out.fail("C20", "empty-stream", "[%s] the call returned a Sat result but nothing was delivered on the result channel before it was closed", cfg)
		}
		return
	}
	if len(items) >= 3 {
		out.probe("stream-len>=3")
	}
	if len(items) >= 6 {
		out.probe("stream-len>=6")
	}
	if len(items) >= 10 {
		out.probe("stream-len>=10")
	}
	prev := 0
	for i, r := range items {
		if r.Status == solver.Sat {
			m := r.Model
			if trim >= 0 && len(m) != trim {
				out.fail("C04", "model-cover", "[%s] delivered model has %d entries, the instance has %d user variables", cfg, len(m), trim)
			}
			a := ref.Bools(m)
			if j := rp.FirstViolated(a); j >= 0 {
				out.fail("C20", "stream-model-invalid", "[%s] delivered result %d: model %v violates constraint %d (%s)", cfg, i, m, j, rp.Cons[j])
			}
			want := 0
			if cost != nil {
				want = cost.Value(a)
			}
			if r.Weight != want {
				out.fail("C20", "stream-cost-wrong", "[%s] delivered result %d reports cost %d, its model costs %d", cfg, i, r.Weight, want)
			}
			if i > 0 && items[i-1].Status == solver.Sat && r.Weight >= prev {
				out.fail("C20", "stream-not-decreasing", "[%s] delivered costs not strictly decreasing: %d then %d", cfg, prev, r.Weight)
			}
			prev = r.Weight
		} else if r.Status == solver.Unsat {
			if i != len(items)-1 || i != 0 {
				out.fail("C20", "stream-unsat-misplaced", "[%s] Unsat result delivered at position %d of %d", cfg, i, len(items))
			}
		} else {
			out.fail("C20", "stream-indet", "[%s] delivered result %d has status %s", cfg, i, statusStr(r.Status))
		}
	}
	last := items[len(items)-1]
	if len(items) >= 2 && last.Status == solver.Sat && items[len(items)-2].Weight == last.Weight+1 {
		out.probe("stream-last-step-improves-by-1")
		if last.Weight == 0 && cost != nil && len(cost.Lits) > 3 {
			out.probe("stream-ends-1-then-0-with->3-cost-literals")
		}
	}
	if last.Status != ret.Status || last.Weight != ret.Weight || fmt.Sprint(last.Model) != fmt.Sprint(ret.Model) {
		out.fail("C20", "last-differs-from-returned", "[%s] last delivered %s/%d/%v, returned %s/%d/%v", cfg, statusStr(last.Status), last.Weight, last.Model, statusStr(ret.Status), ret.Weight, ret.Model)
	}
}

// judgeOptimum: C03 clauses on a final result.
func judgeOptimum(prop, cfg string, rp *ref.Problem, cost *ref.Cost, min int, sat bool, status solver.Status, model []bool, weight int, out *Outcome, t *world.TaskSpec) {
	if status == solver.Unsat {
		if sat {
			out.fail(prop, "verdict", "[%s] answered Unsat, constraints are satisfiable (optimum %d): cons=%v", cfg, min, t.Cons)
		}
		return
	}
	if status == solver.Indet && t.Stop {
		// solver.Interface: "If data is sent to stop, the method may stop prematurely" and "If the solver
		// prematurely stopped, the Indet status will be returned" -- legitimate only in worlds whose caller
		// signalled stop (the pinned tree ignores the signal; a tree that honours it may return Indet)
		out.probe("stopped-optimisation-indet")
		return
	}
	if status != solver.Sat {
		out.fail(prop, "indet", "[%s] final status %s", cfg, statusStr(status))
		return
	}
	if !sat {
		out.fail(prop, "verdict", "[%s] answered Sat, constraints are unsatisfiable: cons=%v", cfg, t.Cons)
		return
	}
	a := ref.Bools(model)
	if j := rp.FirstViolated(a); j >= 0 {
		out.fail(prop, "model-invalid", "[%s] final model %v violates constraint %d (%s)", cfg, model, j, rp.Cons[j])
		return
	}
	want := 0
	if cost != nil {
		want = cost.Value(a)
	}
	if weight != want {
		out.fail(prop, "cost-mismatch", "[%s] reported cost %d, cost function on the returned model gives %d; cons=%v cost=%+v", cfg, weight, want, t.Cons, cost)
	}
	if want != min && t.Stop {
		// the caller signalled its stop channel: the properties say nothing about what a stopped
		// optimisation returns beyond a valid model with its true cost (the pinned tree ignores the
		// signal; a tree that honours it may legitimately return early)
		out.probe("stopped-optimisation-not-optimal")
		return
	}
	if want != min {
		out.fail(prop, "not-optimal", "[%s] returned model costs %d, a model of cost %d exists; cons=%v cost=%+v", cfg, want, min, t.Cons, cost)
	}
}

// execOpt: C03 (Optimal without channel, Optimal with channel, Minimize on
// three fresh solvers), C20 (stream) and the optimisation half of C14.
func execOpt(env Env, t *world.TaskSpec, out *Outcome) {
	rp := refProblem(t)
	cost := t.Cost
	min, sat := rp.Optimum(cost)
	prop := "C03"
	entries := []string{"optimal-nil", "optimal-chan", "minimize"}
	if t.Entry != "" && t.Entry != "all" && t.Entry != "cp-both" {
		entries = []string{t.Entry}
	}
	modes := []bool{t.CP}
	if t.Entry == "cp-both" {
		prop = "C14"
		modes = []bool{false, true}
		entries = []string{"optimal-nil", "minimize"}
	}
	var sums []string
	for _, mode := range modes {
		for _, entry := range entries {
			pb, ok := buildProblem(t, out)
			if !ok {
				out.Summary = "opt:error"
				return
			}
			s := newSolver(t, pb, mode, t.AMO)
			cfg := fmt.Sprintf("%s cp=%v amo=%v route=%s", entry, mode, t.AMO, t.Route)
			var tap *tapCollector
			mark := len(out.Viol)
			if mode && prop == "C14" {
				// no learned-constraint tap here: while optimising, what is learned follows from the problem
				// AND the cost bounds appended so far, and following those bounds would tie the oracle to the
				// name of an internal function (false alarm F7); the tap is used in the decision worlds only
				env.Phase("cp")
			}
			var stop chan struct{}
			if t.Stop {
				stop = make(chan struct{}, 1)
				stop <- struct{}{}
			}
			switch entry {
			case "optimal-nil":
				res := s.Optimal(nil, stop)
				judgeOptimum(prop, cfg, rp, cost, min, sat, res.Status, res.Model, res.Weight, out, t)
				sums = append(sums, fmt.Sprintf("%s/%d", statusStr(res.Status), res.Weight))
			case "optimal-chan":
				ch := make(chan solver.Result, t.Cap)
				var st Stream[solver.Result]
				done := make(chan struct{})
				out.chanFault(t.Cap, t.Delays, t.Stop)
				Consume(env, "result-consumer", ch, t.Delays, &st, done)
				res := s.Optimal(ch, stop)
				closed := DrainAtReturn(ch, &st)
				env.Event("call-return", "Optimal")
				if closed {
					Recv(env, done)
				}
				items, _ := st.snapshot()
				judgeOptimum(prop, cfg, rp, cost, min, sat, res.Status, res.Model, res.Weight, out, t)
				judgeStream(prop, cfg, rp, cost, items, closed, res, -1, out, t)
				sums = append(sums, fmt.Sprintf("%s/%d", statusStr(res.Status), res.Weight))
			case "minimize":
				c := s.Minimize()
				if c == -1 {
					judgeOptimum(prop, cfg, rp, cost, min, sat, solver.Unsat, nil, 0, out, t)
					sums = append(sums, "UNSAT/-1")
				} else {
					judgeOptimum(prop, cfg, rp, cost, min, sat, solver.Sat, s.Model(), c, out, t)
					sums = append(sums, fmt.Sprintf("SAT/%d", c))
				}
			}
			if tap != nil {
				tap.stop(env)
				tap.judge(out, t)
			}
			if mode && prop == "C14" {
				markCP(out, mark)
				env.Phase("")
			}
			statsProbes(s, out)
		}
	}
	// "both optimisation entry points agree" follows from each being compared with the true optimum.
	if sat {
		out.Summary = fmt.Sprintf("opt:SAT/%d", min)
	} else {
		out.Summary = "opt:UNSAT"
	}
	out.Info = fmt.Sprint(sums)
}

// ---------------------------------------------------------------------------

func buildAny(t *world.TaskSpec, out *Outcome) (*solver.Problem, bool) {
	if t.Clauses != nil || t.Route == "slice" || t.Route == "slicenb" || t.Route == "dimacs" || t.Route == "" {
		pb, _, ok := buildCNF(t, out)
		return pb, ok
	}
	return buildProblem(t, out)
}

func refAny(t *world.TaskSpec) *ref.Problem {
	if t.Clauses != nil || t.Route == "slice" || t.Route == "slicenb" || t.Route == "dimacs" || t.Route == "" {
		p := ref.CNF(t.N, t.Clauses)
		return p
	}
	return refProblem(t)
}

// execCount: C05 (CountModels, Enumerate without and with channel on three
// fresh solvers) and C20 (model channel).
func execCount(env Env, t *world.TaskSpec, out *Outcome) {
	rp := refAny(t)
	models := rp.Models()
	want := len(models)
	entries := []string{"count", "enum-nil", "enum-chan"}
	if t.Entry != "" && t.Entry != "all" {
		entries = []string{t.Entry}
	}
	for _, entry := range entries {
		pb, ok := buildAny(t, out)
		if !ok {
			out.Summary = "count:error"
			return
		}
		if pb.NbVars != rp.N && pb.Status != solver.Unsat {
			// the oracle counts over the declared variables; a route that lets the library
			// infer fewer variables than the spec declares is a generator error, not a finding
			out.fail("TOOL", "nbvars-mismatch", "library sees %d variables, spec declares %d (route %s)", pb.NbVars, rp.N, t.Route)
			return
		}
		s := newSolver(t, pb, t.CP, false)
		cfg := fmt.Sprintf("%s route=%s", entry, t.Route)
		switch entry {
		case "count":
			n := s.CountModels()
			if n != want {
				out.fail("C05", "count-wrong", "[%s] CountModels returned %d, the problem has %d models over %d variables; spec=%s", cfg, n, want, rp.N, specStr(t))
			}
		case "enum-nil":
			n := s.Enumerate(nil, nil)
			if n != want {
				out.fail("C05", "count-wrong", "[%s] Enumerate(nil) returned %d, the problem has %d models over %d variables; spec=%s", cfg, n, want, rp.N, specStr(t))
			}
		case "enum-chan":
			ch := make(chan []bool, t.Cap)
			var st Stream[[]bool]
			done := make(chan struct{})
			out.chanFault(t.Cap, t.Delays, false)
			Consume(env, "model-consumer", ch, t.Delays, &st, done)
			n := s.Enumerate(ch, nil)
			closed := DrainAtReturn(ch, &st)
			env.Event("call-return", "Enumerate")
			if closed {
				Recv(env, done)
			} else {
				out.fail("C20", "not-closed-at-return", "[%s] model channel still open when Enumerate returned", cfg)
			}
			items, _ := st.snapshot()
			if len(items) >= 3 {
				out.probe("stream-len>=3")
			}
			if n != len(items) {
				out.fail("C05", "count-vs-delivered", "[%s] Enumerate returned %d but delivered %d models", cfg, n, len(items))
			}
			got := make([]uint32, 0, len(items))
			for _, m := range items {
				if len(m) != rp.N {
					out.fail("C05", "model-length", "[%s] delivered model has %d entries, %d variables declared", cfg, len(m), rp.N)
				}
				got = append(got, ref.Bools(m))
			}
			sort.Slice(got, func(i, j int) bool { return got[i] < got[j] })
			judgeModelSet(cfg, got, models, out, t)
		}
		statsProbes(s, out)
	}
	out.Summary = fmt.Sprintf("count:%d", want)
}

func specStr(t *world.TaskSpec) string {
	if t.Clauses != nil {
		return fmt.Sprintf("n=%d clauses=%v", t.N, t.Clauses)
	}
	return fmt.Sprintf("n=%d cons=%v", t.N, t.Cons)
}

func judgeModelSet(cfg string, got, want []uint32, out *Outcome, t *world.TaskSpec) {
	i, j := 0, 0
	for i < len(got) || j < len(want) {
		switch {
		case j >= len(want) || (i < len(got) && got[i] < want[j]):
			if i > 0 && got[i] == got[i-1] {
				out.fail("C05", "enum-duplicate", "[%s] assignment %b delivered more than once; spec=%s", cfg, got[i], specStr(t))
			} else {
				out.fail("C05", "enum-non-model", "[%s] delivered assignment %b is not a model; spec=%s", cfg, got[i], specStr(t))
			}
			return
		case i >= len(got) || want[j] < got[i]:
			out.fail("C05", "enum-missing", "[%s] model %b never delivered (%d delivered, %d exist); spec=%s", cfg, want[j], len(got), len(want), specStr(t))
			return
		default:
			i++
			j++
			if i < len(got) && got[i] == got[i-1] {
				out.fail("C05", "enum-duplicate", "[%s] assignment %b delivered more than once; spec=%s", cfg, got[i], specStr(t))
				return
			}
		}
	}
}
