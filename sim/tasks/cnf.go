package tasks

import (
	"fmt"
	"strings"

	"github.com/crillab/gophersat/solver"

	"gsim/ref"
	"gsim/world"
)

func copyClauses(cs [][]int) [][]int {
	out := make([][]int, len(cs))
	for i, c := range cs {
		out[i] = append([]int{}, c...)
	}
	return out
}

func statusStr(s solver.Status) string {
	switch s {
	case solver.Sat:
		return "SAT"
	case solver.Unsat:
		return "UNSAT"
	case solver.Indet:
		return "INDET"
	}
	return fmt.Sprintf("STATUS(%d)", int(s))
}

// cnfTruth decides a CNF independently: enumeration for small n, DPLL otherwise.
func cnfTruth(n int, clauses [][]int) bool {
	return ref.CNFSat(n, clauses)
}

// buildCNF builds a solver.Problem by the task's route. wantN is the number of
// variables the caller declared (or, for the plain slice route, the highest
// variable mentioned).
func buildCNF(t *world.TaskSpec, out *Outcome) (pb *solver.Problem, wantN int, ok bool) {
	cl := copyClauses(t.Clauses)
	maxv := 0
	for _, c := range cl {
		for _, l := range c {
			if l < 0 {
				l = -l
			}
			if l > maxv {
				maxv = l
			}
		}
	}
	switch t.Route {
	case "", "slice":
		return solver.ParseSlice(cl), maxv, true
	case "slicenb":
		n := t.N
		if n < maxv {
			n = maxv
		}
		return solver.ParseSliceNb(cl, t.N), n, true
	case "dimacs":
		rd := NewSimReader(t.Text, t.Chunks, t.EOFWith)
		pb, err := solver.ParseCNF(rd)
		out.readerFaults(rd)
		if err != nil {
			out.fail("C01", "dimacs-parse-error", "well-formed DIMACS text rejected: %v; text=%q chunks=%v", err, t.Text, t.Chunks)
			return nil, 0, false
		}
		return pb, t.N, true
	}
	out.fail("TOOL", "bad-route", "%q", t.Route)
	return nil, 0, false
}

// execCNF: C01 (verdict and model) and C06 (certificate).
func execCNF(env Env, t *world.TaskSpec, out *Outcome) {
	pb, wantN, ok := buildCNF(t, out)
	if !ok {
		out.Summary = "cnf:error"
		return
	}
	// with the cutting-planes strategy on, a wrong answer is a C14 matter (same verdict as with it off = the truth)
	prop := "C01"
	if t.CP && !t.Cert {
		prop = "C14"
		env.Phase("cp")
		defer env.Phase("")
		mark := len(out.Viol)
		defer func() { markCP(out, mark) }()
	}
	nTruth := wantN
	soak := nTruth > 90 // beyond the reference solvers: judged by model and certificate only
	truth := false
	if !soak {
		truth = cnfTruth(nTruth, t.Clauses)
	} else {
		out.probe("soak-instance")
	}
	if soak {
		// nothing to compare the parse-time status with
	} else if pb.Status == solver.Unsat {
		out.probe("parse-time-unsat")
		if truth {
			out.fail(prop, "parse-status", "Problem.Status is Unsat after parsing but the formula is satisfiable: %v", t.Clauses)
		}
	} else if pb.Status == solver.Sat {
		out.probe("parse-time-sat")
		if !truth {
			out.fail(prop, "parse-status", "Problem.Status is Sat after parsing but the formula is unsatisfiable: %v", t.Clauses)
		}
	}
	s := solver.New(pb)
	s.Verbose = t.Verbose
	s.CuttingPlanes = t.CP && !t.Cert
	var lines Stream[string]
	var done chan struct{}
	if t.Cert {
		s.Certified = true
		s.CertChan = make(chan string, t.Cap)
		done = make(chan struct{})
		out.chanFault(t.Cap, t.Delays, false)
		Consume(env, "cert-consumer", s.CertChan, t.Delays, &lines, done)
	}
	status := s.Solve()
	if t.Cert {
		Close(env, s.CertChan) // the caller owns CertChan
		Recv(env, done)
	}
	out.Summary = "cnf:" + statusStr(status)
	st := s.Stats
	if st.NbRestarts > 0 {
		out.probe("restart")
	}
	if st.NbDeleted > 0 {
		out.probe("learned-deleted")
	}
	if st.NbUnitLearned > 0 {
		out.probe("learned-unit")
	}
	if st.NbLearned > 0 {
		out.probe("learned-clause")
	}
	if st.NbConflicts > 0 {
		out.probe("conflict")
	}
	switch status {
	case solver.Sat:
		if !truth && !soak {
			out.fail(prop, "verdict", "answered Sat, formula is unsatisfiable: n=%d clauses=%v", wantN, t.Clauses)
			return
		}
		m := s.Model()
		if len(m) != wantN {
			out.fail(prop, "model-length", "model has %d entries, %d variables declared", len(m), wantN)
		}
		if i := ref.CNFSatBy(t.Clauses, m); i >= 0 {
			out.fail(prop, "model-invalid", "model %v falsifies clause %d %v of the input", m, i, t.Clauses[i])
		}
	case solver.Unsat:
		if truth && !soak {
			out.fail(prop, "verdict", "answered Unsat, formula is satisfiable: n=%d clauses=%v", wantN, t.Clauses)
			return
		}
		if soak && !t.Cert {
			out.probe("soak-unsat-not-judged")
		}
	default:
		out.fail(prop, "indet", "Solve returned %s", statusStr(status))
		return
	}
	if t.Cert {
		judgeCert(t, wantN, status == solver.Unsat, lines.Items, out)
	}
}

// judgeCert: C06. Unsat: every line RUP w.r.t. formula + earlier lines and the
// empty clause derivable at the end. Sat: every line entailed (small n only).
func judgeCert(t *world.TaskSpec, n int, unsat bool, lines []string, out *Outcome) {
	out.probe("cert-checked")
	if len(lines) > 0 {
		out.probe("cert-nonempty")
	}
	if unsat && (n > 90 || len(lines) > 3000) {
		// long certificates: the watched-literal reference checker (cross-checked against the naive one in sim/ref)
		r := ref.NewFastRUP(n, t.Clauses)
		for i, ln := range lines {
			c, ok := ref.ParseCertLine(ln)
			if !ok {
				out.fail("C06", "cert-syntax", "line %d %q is not a clause line", i, ln)
				return
			}
			if !r.Check(c) {
				out.fail("C06", "cert-not-rup", "line %d of %d %q is not RUP w.r.t. the formula and the earlier lines; n=%d, %d clauses (soak instance, world file holds it)", i, len(lines), ln, n, len(t.Clauses))
				return
			}
		}
		if !r.Refuted() {
			out.fail("C06", "cert-no-refutation", "after %d lines the empty clause is not derivable by unit propagation; n=%d, %d clauses (soak instance)", len(lines), n, len(t.Clauses))
		}
		out.probe("cert-long-checked")
		return
	}
	if unsat {
		r := ref.NewRUP(n, t.Clauses)
		for i, ln := range lines {
			c, ok := ref.ParseCertLine(ln)
			if !ok {
				out.fail("C06", "cert-syntax", "line %d %q is not a clause line", i, ln)
				return
			}
			if !r.Check(c) {
				out.fail("C06", "cert-not-rup", "line %d %q is not RUP w.r.t. the formula and the %d earlier lines; formula=%v cert=%q", i, ln, i, t.Clauses, strings.Join(lines, " | "))
				return
			}
		}
		if !r.Refuted() {
			out.fail("C06", "cert-no-refutation", "after %d lines the empty clause is not derivable by unit propagation; formula=%v cert=%q", len(lines), t.Clauses, strings.Join(lines, " | "))
		}
		return
	}
	if n > 16 {
		return
	}
	p := ref.CNF(n, t.Clauses)
	for i, ln := range lines {
		c, ok := ref.ParseCertLine(ln)
		if !ok {
			out.fail("C06", "cert-syntax", "line %d %q is not a clause line", i, ln)
			return
		}
		if len(c) == 0 {
			out.fail("C06", "cert-not-entailed", "empty clause emitted on a satisfiable formula")
			return
		}
		if ok, a := p.Entails(ref.Clause(c...)); !ok {
			out.fail("C06", "cert-not-entailed", "line %d %q is not a consequence of the satisfiable formula %v (counter-model %b)", i, ln, t.Clauses, a)
			return
		}
	}
}

var touchSink int

// touch reads every element of a delivered value.
func touch(v any) {
	n := 0
	switch x := v.(type) {
	case []bool:
		for _, b := range x {
			if b {
				n++
			}
		}
	case solver.Result:
		for _, b := range x.Model {
			if b {
				n++
			}
		}
		n += x.Weight
	case string:
		n += len(x)
	}
	if n < 0 {
		touchSink++
	}
}
