package tasks

import (
	"fmt"
	"sort"

	"github.com/crillab/gophersat/maxsat"
	"github.com/crillab/gophersat/solver"

	"gsim/ref"
	"gsim/world"
)

func msLits(l []int) []maxsat.Lit {
	o := make([]maxsat.Lit, len(l))
	for i, x := range l {
		if x > 0 {
			o[i] = maxsat.Var(fmt.Sprintf("x%d", x))
		} else {
			o[i] = maxsat.Not(fmt.Sprintf("x%d", -x))
		}
	}
	return o
}

func msConstr(s world.Soft) maxsat.Constr {
	l := msLits(s.Con.Lits)
	switch s.Form {
	case "clause":
		switch {
		case s.Weight == 0:
			return maxsat.HardClause(l...)
		case s.Weight == 1:
			return maxsat.SoftClause(l...)
		default:
			return maxsat.WeightedClause(l, s.Weight)
		}
	case "pb":
		w := cp(s.Con.Coefs)
		switch {
		case s.Weight == 0:
			return maxsat.HardPBConstr(l, w, s.Con.K)
		case s.Weight == 1:
			return maxsat.SoftPBConstr(l, w, s.Con.K)
		default:
			return maxsat.WeightedPBConstr(l, w, s.Con.K, s.Weight)
		}
	case "card": // implicit unit coefficients
		return maxsat.Constr{Lits: l, AtLeast: s.Con.K, Weight: s.Weight}
	}
	panic("bad maxsat form " + s.Form)
}

// msRef splits an instance into its hard part and a cost evaluator.
func msRef(t *world.TaskSpec) (hard *ref.Problem, costOf func(a uint32) int, userVars []int) {
	hard = &ref.Problem{N: t.N}
	seen := map[int]bool{}
	for _, s := range t.Soft {
		if m := s.Con.MaxVar(); m > hard.N {
			hard.N = m
		}
		for _, l := range s.Con.Lits {
			if l < 0 {
				l = -l
			}
			seen[l] = true
		}
		if s.Weight == 0 {
			hard.Cons = append(hard.Cons, s.Con)
		}
	}
	for v := range seen {
		userVars = append(userVars, v)
	}
	sort.Ints(userVars)
	costOf = func(a uint32) int {
		c := 0
		for _, s := range t.Soft {
			if s.Weight > 0 && !s.Con.Holds(a) {
				c += s.Weight
			}
		}
		return c
	}
	return
}

func msOptimum(hard *ref.Problem, costOf func(uint32) int) (min int, sat bool) {
	for a := uint32(0); a < uint32(1)<<uint(hard.N); a++ {
		if hard.Holds(a) {
			c := costOf(a)
			if !sat || c < min {
				min = c
			}
			sat = true
		}
	}
	return
}

// execMaxsat: C04 and, for the WCNF channel route, C20.
func execMaxsat(env Env, t *world.TaskSpec, out *Outcome) {
	hard, costOf, userVars := msRef(t)
	min, sat := msOptimum(hard, costOf)
	if sat {
		out.Summary = fmt.Sprintf("maxsat:SAT/%d", min)
	} else {
		out.Summary = "maxsat:UNSAT"
	}
	switch t.Route {
	case "api":
		cs := make([]maxsat.Constr, len(t.Soft))
		// a caller may well pass the same coefficient slice to several constraints (say, the item
		// sizes of a packing problem): constraints with equal coefficient vectors share one slice here,
		// in half of the worlds one with spare capacity
		shared := map[string][]int{}
		for i, s := range t.Soft {
			cs[i] = msConstr(s)
			if s.Form == "pb" && t.Stop {
				k := fmt.Sprint(s.Con.Coefs)
				if sl, ok := shared[k]; ok {
					cs[i].Coeffs = sl
					out.fault("caller-shares-coefficient-slice", 1)
				} else {
					sl := make([]int, len(s.Con.Coefs), len(s.Con.Coefs)+len(t.Soft)%3)
					copy(sl, s.Con.Coefs)
					shared[k] = sl
					cs[i].Coeffs = sl
				}
			}
		}
		pb := maxsat.New(cs...)
		model, cost := pb.Solve()
		if model == nil {
			if sat {
				out.fail("C04", "verdict", "answered unsatisfiable, the hard constraints are satisfiable (optimum %d): %s", min, softStr(t))
			}
			if cost != -1 {
				// neither the property nor the documentation says what cost comes with a nil model
				out.probe("maxsat-unsat-cost-not-minus-one")
			}
			return
		}
		if !sat {
			out.fail("C04", "verdict", "returned a model, the hard constraints are unsatisfiable: %s", softStr(t))
			return
		}
		// covers exactly the user's variables
		var keys []string
		for k := range model {
			keys = append(keys, k)
		}
		sort.Strings(keys)
		var wantKeys []string
		for _, v := range userVars {
			wantKeys = append(wantKeys, fmt.Sprintf("x%d", v))
		}
		sort.Strings(wantKeys)
		if fmt.Sprint(keys) != fmt.Sprint(wantKeys) {
			out.fail("C04", "model-cover", "model binds %v, the user's variables are %v", keys, wantKeys)
		}
		var a uint32
		for _, v := range userVars {
			if model[fmt.Sprintf("x%d", v)] {
				a |= 1 << uint(v-1)
			}
		}
		judgeMaxsat("api", hard, costOf, min, a, cost, out, t)
	case "wcnf":
		rd := NewSimReader(t.Text, t.Chunks, t.EOFWith)
		s, err := maxsat.ParseWCNF(rd)
		out.readerFaults(rd)
		if err != nil {
			out.fail("C04", "wcnf-parse-error", "well-formed WCNF text rejected: %v; text=%q", err, t.Text)
			return
		}
		var res solver.Result
		cfg := "wcnf " + t.Entry
		if t.Entry == "wcnf-chan" {
			ch := make(chan solver.Result, t.Cap)
			var st Stream[solver.Result]
			done := make(chan struct{})
			out.chanFault(t.Cap, t.Delays, false)
			Consume(env, "result-consumer", ch, t.Delays, &st, done)
			res = s.Optimal(ch, nil)
			closed := DrainAtReturn(ch, &st)
			env.Event("call-return", "maxsat.Optimal")
			if closed {
				Recv(env, done)
			}
			items, _ := st.snapshot()
			// stream oracle over hard constraints and the soft-violation cost
			judgeMSStream(cfg, hard, costOf, items, closed, res, t.N, out, t)
		} else {
			res = s.Optimal(nil, nil)
		}
		switch res.Status {
		case solver.Unsat:
			if sat {
				out.fail("C04", "verdict", "[%s] answered Unsat, the hard clauses are satisfiable (optimum %d): text=%q", cfg, min, t.Text)
			}
		case solver.Sat:
			if !sat {
				out.fail("C04", "verdict", "[%s] answered Sat, the hard clauses are unsatisfiable: text=%q", cfg, t.Text)
				return
			}
			if len(res.Model) != t.N {
				out.fail("C04", "model-cover", "[%s] returned model has %d entries, the file declares %d variables (relaxation variables must not leak); text=%q", cfg, len(res.Model), t.N, t.Text)
			}
			m := res.Model
			if len(m) > t.N {
				m = m[:t.N]
			}
			judgeMaxsat(cfg, hard, costOf, min, ref.Bools(m), res.Weight, out, t)
		default:
			out.fail("C04", "indet", "[%s] status %s", cfg, statusStr(res.Status))
		}
	default:
		out.fail("TOOL", "bad-route", "%q", t.Route)
	}
}

func softStr(t *world.TaskSpec) string {
	s := ""
	for _, x := range t.Soft {
		s += fmt.Sprintf("{%s w=%d %s} ", x.Con, x.Weight, x.Form)
	}
	return s
}

func judgeMaxsat(cfg string, hard *ref.Problem, costOf func(uint32) int, min int, a uint32, cost int, out *Outcome, t *world.TaskSpec) {
	if j := hard.FirstViolated(a); j >= 0 {
		out.fail("C04", "hard-violated", "[%s] returned assignment %b violates hard constraint %s; instance: %s%q", cfg, a, hard.Cons[j], softStr(t), t.Text)
		return
	}
	c := costOf(a)
	if cost != c {
		out.fail("C04", "cost-mismatch", "[%s] reported cost %d, the returned assignment %b violates soft constraints of total weight %d; instance: %s%q", cfg, cost, a, c, softStr(t), t.Text)
	}
	if c != min {
		out.fail("C04", "not-optimal", "[%s] returned assignment costs %d, the minimum is %d; instance: %s%q", cfg, c, min, softStr(t), t.Text)
	}
}

func judgeMSStream(cfg string, hard *ref.Problem, costOf func(uint32) int, items []solver.Result, closed bool, ret solver.Result, n int, out *Outcome, t *world.TaskSpec) {
	if !closed {
		out.fail("C20", "not-closed-at-return", "[%s] result channel still open when the call returned", cfg)
	}
	if len(items) == 0 {
		if ret.Status == solver.Sat {
			out.fail("C20", "empty-stream", "[%s] the call returned a Sat result but nothing was delivered before close", cfg)
		}
		return
	}
	if len(items) >= 3 {
		out.probe("stream-len>=3")
	}
	if len(items) >= 6 {
		out.probe("ms-stream-len>=6")
	}
	if len(items) >= 10 {
		out.probe("ms-stream-len>=10")
	}
	for i, r := range items {
		switch r.Status {
		case solver.Sat:
			if len(r.Model) != n {
				out.fail("C04", "model-cover", "[%s] delivered model %d has %d entries, the file declares %d variables", cfg, i, len(r.Model), n)
				continue
			}
			a := ref.Bools(r.Model)
			if j := hard.FirstViolated(a); j >= 0 {
				out.fail("C20", "stream-model-invalid", "[%s] delivered result %d violates hard constraint %s", cfg, i, hard.Cons[j])
			}
			if c := costOf(a); c != r.Weight {
				out.fail("C20", "stream-cost-wrong", "[%s] delivered result %d reports cost %d, true cost %d", cfg, i, r.Weight, c)
			}
			if i > 0 && items[i-1].Status == solver.Sat && r.Weight >= items[i-1].Weight {
				out.fail("C20", "stream-not-decreasing", "[%s] costs %d then %d", cfg, items[i-1].Weight, r.Weight)
			}
		case solver.Unsat:
			if len(items) != 1 {
				out.fail("C20", "stream-unsat-misplaced", "[%s] Unsat delivered among %d results", cfg, len(items))
			}
		default:
			out.fail("C20", "stream-indet", "[%s] delivered status %s", cfg, statusStr(r.Status))
		}
	}
	last := items[len(items)-1]
	if last.Status != ret.Status || last.Weight != ret.Weight || fmt.Sprint(last.Model) != fmt.Sprint(ret.Model) {
		out.fail("C20", "last-differs-from-returned", "[%s] last delivered %s/%d/%v, returned %s/%d/%v", cfg, statusStr(last.Status), last.Weight, last.Model, statusStr(ret.Status), ret.Weight, ret.Model)
	}
}
