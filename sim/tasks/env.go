// Package tasks holds the workloads (uses of gophersat through its public API)
// and their oracles. It talks to the simulator only through Env, so the same
// code runs under the deterministic scheduler (Engine A) and free-running
// under the race detector (Engine R).
package tasks

import (
	"fmt"
	"io"
	"sync"

	"gsim/world"
)

// Env is what a task may ask of the simulator.
type Env interface {
	Go(name string, f func()) // start a harness goroutine
	Pre() any                 // immediately before a harness channel operation
	Post(h any)               // immediately after it
	Sync()                    // plain scheduling point in harness code
	Sleep(ns int64)           // sleep on the simulated clock
	Snooze(decisions int)     // stay unscheduled for that many scheduler decisions (lateness measured in the others' progress, not in time)
	Seq() int64               // global event sequence number (scheduler decisions)
	Event(kind, detail string)
	Probe(name string)
	SetTap(f func(kind string, a, b any)) // nil to remove; no-op outside Engine A
	Stdout() string                        // everything the library printed so far in this world
	Instrumented() bool
	Phase(name string) // names the configuration the task is in (appended to engine-level violation clauses)
}

// Violation is one oracle clause that failed.
type Violation struct {
	Prop   string `json:"prop"`   // property the clause belongs to
	Clause string `json:"clause"` // short stable identifier of the oracle clause
	Detail string `json:"detail"`
}

// Outcome is what one task reports.
type Outcome struct {
	Kind    string         `json:"kind"`
	Summary string         `json:"summary"` // what C16 compares with the solo run
	Viol    []Violation    `json:"viol,omitempty"`
	Diverge int            `json:"diverge,omitempty"`
	Probes  map[string]int `json:"probes,omitempty"`
	Faults  map[string]int `json:"faults,omitempty"`
	Info    string         `json:"info,omitempty"`
}

func (o *Outcome) fail(prop, clause, format string, args ...any) {
	o.Viol = append(o.Viol, Violation{Prop: prop, Clause: clause, Detail: fmt.Sprintf(format, args...)})
}

func (o *Outcome) probe(name string) {
	if o.Probes == nil {
		o.Probes = map[string]int{}
	}
	o.Probes[name]++
}

func (o *Outcome) fault(name string, n int) {
	if n <= 0 {
		return
	}
	if o.Faults == nil {
		o.Faults = map[string]int{}
	}
	o.Faults[name] += n
}

// readerFaults records what the simulated reader actually did.
func (o *Outcome) readerFaults(r *SimReader) {
	if len(r.chunks) > 0 {
		o.fault("reader-chunked-delivery", 1)
	}
	o.fault("reader-short-read", r.Shorts)
	o.fault("reader-empty-read", r.Zeros)
	o.fault("reader-cut-inside-token", r.TokenCuts)
	if r.EOFWithData {
		o.fault("reader-eof-with-data", 1)
	}
	if r.Failed {
		o.fault("reader-io-error", 1)
	}
}

func (o *Outcome) chanFault(capacity int, delays []int64, stop bool) {
	o.fault(fmt.Sprintf("chan-capacity-%d", capacity), 1)
	if len(delays) > 0 {
		o.fault("consumer-delay-script", 1)
	}
	if stop {
		o.fault("stop-signal", 1)
	}
}

// Exec runs one task.
func Exec(env Env, t *world.TaskSpec) (out Outcome) {
	out.Kind = t.Kind
	switch t.Kind {
	case "cnf":
		execCNF(env, t, &out)
	case "pb":
		execPB(env, t, &out)
	case "opt":
		execOpt(env, t, &out)
	case "count":
		execCount(env, t, &out)
	case "maxsat":
		execMaxsat(env, t, &out)
	case "incr":
		execIncr(env, t, &out)
	case "assume":
		execAssume(env, t, &out)
	case "mus":
		execMUS(env, t, &out)
	case "cert":
		execCert(env, t, &out)
	case "parse":
		execParse(env, t, &out)
	case "bf":
		execBF(env, t, &out)
	default:
		out.fail("TOOL", "unknown-task-kind", "%q", t.Kind)
	}
	return out
}

// ---------------------------------------------------------------------------
// Channel helpers: every harness channel operation is bracketed by Pre/Post so
// that the scheduler owns it.

func Send[T any](env Env, ch chan T, v T) {
	h := env.Pre()
	ch <- v
	env.Post(h)
}

func Recv[T any](env Env, ch chan T) (T, bool) {
	h := env.Pre()
	v, ok := <-ch
	env.Post(h)
	return v, ok
}

func Close[T any](env Env, ch chan T) {
	h := env.Pre()
	close(ch)
	env.Post(h)
}

// Stream records what was delivered on a result channel, in channel order.
type Stream[T any] struct {
	mu     sync.Mutex
	Items  []T
	Closed bool
}

func (s *Stream[T]) add(v T) {
	s.mu.Lock()
	s.Items = append(s.Items, v)
	s.mu.Unlock()
}

func (s *Stream[T]) setClosed() {
	s.mu.Lock()
	s.Closed = true
	s.mu.Unlock()
}

func (s *Stream[T]) snapshot() ([]T, bool) {
	s.mu.Lock()
	defer s.mu.Unlock()
	return append([]T(nil), s.Items...), s.Closed
}

// Consume starts a consumer goroutine that drains ch with the given delay
// script and signals on done when it has seen the close.
func Consume[T any](env Env, name string, ch chan T, delays []int64, st *Stream[T], done chan struct{}) {
	env.Go(name, func() {
		i := 0
		for {
			if len(delays) > 0 {
				if d := delays[i%len(delays)]; d > 0 {
					env.Sleep(d)
				} else if d == -1 {
					env.Sync()
				} else if d < -1 {
					env.Snooze(int(-d))
				}
			}
			i++
			// receive and record before the next scheduling point, so that the record is in channel order
			h := env.Pre()
			v, ok := <-ch
			if ok {
				touch(v) // read what was delivered now, as a real consumer would (lets the race detector see a producer that keeps writing to it)
				st.add(v)
			} else {
				st.setClosed()
			}
			env.Post(h)
			if !ok {
				env.Event("consumer-closed", name)
				break
			}
			env.Event("consumer-recv", name)
		}
		Close(env, done)
	})
}

// DrainAtReturn is called by the producer task right after the library call
// returned: whatever is still buffered is moved to the record (channel order is
// preserved because only one goroutine runs at a time under Engine A and the
// consumer appends under the same lock under Engine R) and the channel must
// then be observed closed. Returns false if the channel is still open.
func DrainAtReturn[T any](ch chan T, st *Stream[T]) bool {
	for {
		select {
		case v, ok := <-ch:
			if !ok {
				return true
			}
			st.add(v)
		default:
			return false
		}
	}
}

// ---------------------------------------------------------------------------

// SimReader delivers the bytes of a text under a chunking script (all legal
// under the io.Reader contract): positive n = up to n bytes, 0 = an empty
// read (0, nil), and the script is cycled.
type SimReader struct {
	data    []byte
	pos     int
	chunks  []int
	i       int
	eofWith bool
	zeros   int
	FailAt  int // >0: return an error once pos reaches FailAt; -1: fail on first read
	Reads   int
	Zeros   int
	Shorts      int
	TokenCuts   int
	EOFWithData bool
	Failed      bool
}

func isBlank(b byte) bool { return b == ' ' || b == '\t' || b == '\n' || b == '\r' }

var ErrSimIO = fmt.Errorf("simulated I/O error")

func NewSimReader(text string, chunks []int, eofWith bool) *SimReader {
	return &SimReader{data: []byte(text), chunks: chunks, eofWith: eofWith}
}

func (r *SimReader) Read(p []byte) (int, error) {
	r.Reads++
	if r.FailAt == -1 {
		r.Failed = true
		return 0, ErrSimIO
	}
	if r.FailAt > 0 && r.pos >= r.FailAt {
		r.Failed = true
		return 0, ErrSimIO
	}
	if r.pos >= len(r.data) {
		return 0, io.EOF
	}
	if len(p) == 0 {
		return 0, nil
	}
	n := len(p)
	if len(r.chunks) > 0 {
		c := r.chunks[r.i%len(r.chunks)]
		r.i++
		if c == 0 {
			// at most 3 consecutive empty reads: bufio gives up after 100, scanners after 100 too
			if r.zeros < 3 {
				r.zeros++
				r.Zeros++
				return 0, nil
			}
			c = 1
		}
		r.zeros = 0
		if c < n {
			n = c
		}
	}
	if n > len(r.data)-r.pos {
		n = len(r.data) - r.pos
	}
	if r.FailAt > 0 && r.pos+n > r.FailAt {
		n = r.FailAt - r.pos
	}
	copy(p, r.data[r.pos:r.pos+n])
	r.pos += n
	if n < len(p) && r.pos < len(r.data) {
		r.Shorts++
		if !isBlank(r.data[r.pos-1]) && !isBlank(r.data[r.pos]) {
			r.TokenCuts++
		}
	}
	if r.eofWith && r.pos >= len(r.data) {
		r.EOFWithData = true
		return n, io.EOF
	}
	return n, nil
}
